"""C06 — compile-time evaluation agrees with run-time evaluation.
Theorems: coq/C06/Props.v over the arm tables scraped each run from the Rust sources
(tools/facts_c06.py -> coq/Generated/C06Facts.v).  Correspondence, judged inside Coq (C06/Judge.v):
  fold : harness bin `c06 fold` (sway-ir const-folding pass on a one-instruction module)  == Fold.*
  ce   : harness bin `c06 ce`   (sway-core const_eval through `const A: T = <intrinsic>`) == CE.*
  run  : real Sway packages, every operation computed on fuel-vm from operands the optimizer cannot see
         (asm blocks), result logged straight from the register                          == Run.* (Vm.Alu)
  plus `const` declarations with the same operands logged from the same packages, and std-operator /
  cast / aggregate / const-fn expressions evaluated both ways and compared directly (no model)."""
import os, sys, json, subprocess
from vlib import coq, rust, sway
from vlib.core import NCPU, ROOT

sys.path.insert(0, os.path.join(ROOT, "tools"))

BINOPS = ["add", "sub", "mul", "div", "mod", "and", "or", "xor", "lsh", "rsh"]
COQ_OP = dict(add="Add", sub="Sub", mul="Mul", div="Div", mod="Mod", **{"and": "And", "or": "Or"}, xor="Xor", lsh="Lsh", rsh="Rsh")
PREDS = {"eq": "PEq", "lt": "PLt", "gt": "PGt"}
UINTS = ["u8", "u16", "u32", "u64"]
BITS = {"u8": 8, "u16": 16, "u32": 32, "u64": 64, "u256": 256, "b256": 256, "bool": 1}
# IR types: u16 and u32 are `u64` in the IR (ir_generation/convert.rs); only u8 keeps its width
IRTY = {"u8": "u8", "u16": "u64", "u32": "u64", "u64": "u64", "u256": "u256", "b256": "b256", "bool": "bool"}
COQ_KIND = {"u8": "(KU 8)", "u16": "(KU 64)", "u32": "(KU 64)", "u64": "(KU 64)", "u256": "KU256", "b256": "KB256", "bool": "KBool"}
VIOL = {2: "a constant was substituted where run-time evaluation reverts", 3: "compile-time value differs from run-time value",
        5: "the compiler panicked"}


def hex64(v): return "0x%064x" % v


def boundary(rng, bits):
    m = (1 << bits) - 1
    k = rng.randrange(bits)
    c = rng.random()
    if c < 0.35: v = rng.choice([0, 1, 2, m, m - 1, m - 2, 1 << (bits - 1), (1 << (bits - 1)) - 1, (1 << (bits - 1)) + 1])
    elif c < 0.65: v = (1 << k) + rng.choice([-1, 0, 1])
    elif c < 0.8: v = rng.getrandbits(rng.randrange(1, bits + 1))
    elif c < 0.9 and bits > 64: v = rng.choice([(1 << 64) - 1, 1 << 64, (1 << 64) + 1, (1 << 128) - 1, 1 << 128, (1 << 192) + 5])
    else: v = m - rng.getrandbits(rng.randrange(1, max(2, bits // 2)))
    return max(0, min(m, v))


def shift_amount(rng, bits):
    c = rng.random()
    if c < 0.5: return rng.choice([0, 1, bits - 1, bits, bits + 1, bits // 2, 7, 8, 63, 64, 65, 255, 256, 257])
    if c < 0.75: return rng.randrange(0, bits + 2)
    if c < 0.9: return rng.choice([(1 << 32) - 1, 1 << 32, (1 << 32) + 1, (1 << 63), (1 << 64) - 1, (1 << 64) - 2, 1 << 40])
    return rng.getrandbits(rng.randrange(1, 65))


def lit_ir(ty, v):
    return hex64(v) if ty in ("u256", "b256") else str(v)


def lit_sway(ty, v):
    if ty == "u256": return "0x%xu256" % v
    if ty == "b256": return hex64(v)
    if ty == "bool": return "true" if v else "false"
    return "%d%s" % (v, ty)


def opaque(ty, v):
    """an expression of type ty the optimizer cannot look through"""
    if ty in ("u256", "b256"):
        return "asm(r: %s) { r: %s }" % (lit_sway(ty, v), ty)
    return "asm(r: %du64) { r: %s }" % (v, ty)


class Case:
    __slots__ = ("kind", "op", "lty", "rty", "l", "r", "fold", "ce", "run", "cpk")

    def __init__(self, kind, op, lty, rty, l, r=0):
        self.kind, self.op, self.lty, self.rty, self.l, self.r = kind, op, lty, rty, l, r
        self.fold = self.ce = self.run = self.cpk = None  # observations

    def res_ty(self): return "bool" if self.kind == "cmp" else self.lty

    def fold_line(self):
        if self.kind == "bin": return "bin %s %s %s %s %s" % (self.op, IRTY[self.lty], IRTY[self.rty], lit_ir(self.lty, self.l), lit_ir(self.rty, self.r))
        if self.kind == "not": return "un not %s %s" % (IRTY[self.lty], lit_ir(self.lty, self.l))
        return "cmp %s %s %s %s" % (self.op, IRTY[self.lty], lit_ir(self.lty, self.l), lit_ir(self.lty, self.r))

    def expr(self, f):
        if self.kind == "not": return "__not(%s)" % f(self.lty, self.l)
        return "__%s(%s, %s)" % (self.op, f(self.lty, self.l), f(self.rty, self.r))

    def ce_line(self): return "%s\t%s" % (self.res_ty(), self.expr(lit_sway))

    def coq(self):
        if self.kind == "bin": return "OBin %s %s %s %d %d" % (COQ_OP[self.op], COQ_KIND[self.lty], COQ_KIND[self.rty], self.l, self.r)
        if self.kind == "not": return "ONot %s %d" % (COQ_KIND[self.lty], self.l)
        return "OCmp %s %s %d %d" % (PREDS[self.op], COQ_KIND[self.lty], self.l, self.r)

    def key(self):
        if self.kind == "not" and self.lty == "u8": return "not_u8"
        return "%s_%s_%s_%x_%x" % (self.kind, self.op, self.lty, self.l, self.r)

    def replay(self):
        return {"kind": self.kind, "op": self.op, "lty": self.lty, "rty": self.rty, "l": str(self.l), "r": str(self.r),
                "fold_case": self.fold_line(), "sway_expr": self.expr(lit_sway),
                "observed": {"fold": self.fold, "const_eval": self.ce, "run_time": self.run, "const_in_package": self.cpk}}


def gen_cases(rng, per):
    cs = []
    # fixed corpus: the refutation witnesses and neighbours, boundary identities
    M64, M256 = (1 << 64) - 1, (1 << 256) - 1
    cs += [Case("bin", "mod", "u256", "u256", 1, 0), Case("bin", "div", "u256", "u256", 1, 0), Case("bin", "mod", "u64", "u64", 1, 0),
           Case("cmp", "gt", "b256", "b256", 1, 0), Case("cmp", "lt", "b256", "b256", 1, 0), Case("cmp", "eq", "b256", "b256", 1, 1),
           Case("bin", "add", "u64", "u64", M64, 1), Case("bin", "add", "u8", "u8", 255, 1), Case("bin", "sub", "u64", "u64", 0, 1),
           Case("bin", "mul", "u64", "u64", 1 << 32, 1 << 32), Case("bin", "lsh", "u64", "u64", 1, 64), Case("bin", "rsh", "u64", "u64", M64, 64),
           Case("bin", "lsh", "u64", "u64", (1 << 63) + 1, 1), Case("bin", "lsh", "u256", "u64", (1 << 255) + 1, 1),
           Case("bin", "lsh", "u256", "u64", 1, 255), Case("bin", "lsh", "u256", "u64", 1, 256), Case("bin", "lsh", "u256", "u64", 0, 300),
           Case("bin", "rsh", "u256", "u64", M256, 255), Case("bin", "rsh", "u256", "u64", M256, 256), Case("bin", "rsh", "b256", "u64", M256, 1 << 63),
           Case("bin", "add", "u256", "u256", M256, 1), Case("bin", "mul", "u256", "u256", 1 << 128, 1 << 128), Case("bin", "sub", "u256", "u256", 0, 1),
           Case("not", "not", "u8", None, 5), Case("not", "not", "u16", None, 5), Case("not", "not", "u32", None, 5), Case("not", "not", "u64", None, 5),
           Case("not", "not", "u256", None, 5), Case("not", "not", "b256", None, 5), Case("cmp", "eq", "bool", "bool", 1, 0)]
    for op in BINOPS:
        if op in ("lsh", "rsh"): tys = UINTS + ["u256", "b256"]
        elif op in ("and", "or", "xor"): tys = UINTS + ["u256", "b256"]
        else: tys = UINTS + ["u256"]
        for ty in tys:
            for _ in range(per):
                l = boundary(rng, BITS[ty])
                if op in ("lsh", "rsh"):
                    cs.append(Case("bin", op, ty, "u64", l, shift_amount(rng, BITS[ty])))
                else:
                    r = boundary(rng, BITS[ty])
                    if rng.random() < 0.15: r = l
                    if op in ("div", "mod") and rng.random() < 0.15: r = 0
                    if op == "sub" and rng.random() < 0.3 and r > l: l, r = r, l
                    if op == "mul" and rng.random() < 0.4: r = boundary(rng, max(2, BITS[ty] // 2))
                    cs.append(Case("bin", op, ty, ty, l, r))
    for p in PREDS:
        for ty in UINTS + ["u256", "b256"] + (["bool"] if p == "eq" else []):
            for _ in range(max(2, per // 2)):
                l = boundary(rng, BITS[ty]); r = boundary(rng, BITS[ty])
                if rng.random() < 0.3: r = l
                cs.append(Case("cmp", p, ty, ty, l, r))
    for ty in UINTS + ["u256", "b256"]:
        for _ in range(per):
            cs.append(Case("not", "not", ty, None, boundary(rng, BITS[ty])))
    return cs


def dangerous(c):
    """cases that can take the whole process down on a tree without the checked_shl early exit"""
    return c.kind == "bin" and c.op == "lsh" and c.lty in ("u256", "b256") and c.r >= 4096


def parse_obs(line):
    line = line.strip()
    if line.startswith("val "):
        try: return ("val", int(line[4:]))
        except ValueError: return ("err", line)
    if line.startswith("notfolded") or line.startswith("error typecheck: Could not evaluate initializer"): return ("none", None)
    if line.startswith("panic"): return ("panic", line[:200])
    return ("err", line[:300])


def run_harness(binp, mode, lines, nproc):
    """Run lines through `c06 <mode>` in nproc processes; returns list of output lines (None = process died)."""
    n = len(lines)
    if n == 0: return []
    per = (n + nproc - 1) // nproc
    chunks = [(i, lines[i:i + per]) for i in range(0, n, per)]
    out = [None] * n
    import concurrent.futures as cf

    def one(ch):
        i0, ls = ch
        p = subprocess.run([binp, mode], input="\n".join(ls) + "\n", stdout=subprocess.PIPE, stderr=subprocess.DEVNULL, text=True, timeout=1800)
        return i0, p.stdout.split("\n"), p.returncode

    with cf.ThreadPoolExecutor(max_workers=nproc) as ex:
        for i0, res, rc in ex.map(one, chunks):
            res = [r for r in res if r.strip()]
            for k, r in enumerate(res):
                if i0 + k < n: out[i0 + k] = r
    return out


def iobs(o):
    if o is None: return "IUnk"
    if o[0] == "val": return "(IVal %d)" % o[1]
    if o[0] == "none": return "INone"
    if o[0] == "panic": return "IPanic"
    return "IUnk"


def robs(o):
    if o is None: return "RUnk"
    if o[0] == "val": return "(RVal %d)" % o[1]
    if o[0] == "revert": return "RRevert"
    return "RUnk"


# ------------------------------------------------------------------ packages
def run_fn(i, c):
    e = c.expr(opaque)
    if c.res_ty() in UINTS: body = "log(asm(r: %s) { r: u64 });" % e
    else: body = "log(%s);" % e
    return "#[test] fn r%d() { %s }" % (i, body)


def const_decl(i, c):
    return "const C%d: %s = %s;" % (i, c.res_ty(), c.expr(lit_sway))


def const_fn(i, c):
    if c.res_ty() in UINTS: return "#[test] fn c%d() { log(asm(r: C%d) { r: u64 }); }" % (i, i)
    return "#[test] fn c%d() { log(C%d); }" % (i, i)


def parse_log(t):
    if not t["state"].startswith("Return"): return ("revert", None)
    d = [r for r in t["receipts"] if r.get("k") == "LogData"]
    if len(d) != 1: return ("err", "no single LogData")
    return ("val", int(d[0]["data"], 16))


# std-level expressions: (type, expression template with {a} {b}, operand types) evaluated as a const (literals)
# and at run time (opaque operands); both logged and compared directly.
STD_TEMPLATES = [
    # (u8 + - * and the as_u64/as_u256 casts go through asm blocks in std: const_eval rejects them with the
    #  clean "Could not evaluate initializer" error, nothing is substituted, so they are not generated here)
    ("u16", "{a} + {b}", ("u16", "u16")), ("u16", "{a} * {b}", ("u16", "u16")), ("u32", "{a} + {b}", ("u32", "u32")),
    ("u32", "{a} * {b}", ("u32", "u32")), ("u32", "{a} - {b}", ("u32", "u32")), ("u64", "{a} + {b}", ("u64", "u64")),
    ("u64", "{a} * {b}", ("u64", "u64")), ("u64", "{a} / {b}", ("u64", "u64")), ("u64", "{a} % {b}", ("u64", "u64")),
    ("u8", "!{a}", ("u8",)), ("u16", "!{a}", ("u16",)), ("u32", "!{a}", ("u32",)), ("u64", "!{a}", ("u64",)),
    ("u16", "{a} << {b}", ("u16", "u64")), ("u32", "{a} << {b}", ("u32", "u64")), ("u32", "{a} >> {b}", ("u32", "u64")),
    ("u64", "{a} << {b}", ("u64", "u64")), ("u256", "{a} + {b}", ("u256", "u256")), ("u256", "{a} * {b}", ("u256", "u256")),
    ("u256", "{a} % {b}", ("u256", "u256")), ("u256", "{a} << {b}", ("u256", "u64")), ("u256", "{a} >> {b}", ("u256", "u64")),
    ("u256", "!{a}", ("u256",)), ("b256", "!{a}", ("b256",)), ("b256", "{a} & {b}", ("b256", "b256")), ("b256", "{a} ^ {b}", ("b256", "b256")),
    ("bool", "{a} > {b}", ("b256", "b256")), ("bool", "{a} < {b}", ("u256", "u256")), ("bool", "{a} == {b}", ("u8", "u8")),
    ("bool", "{a} >= {b}", ("u32", "u32")), ("bool", "{a} != {b}", ("u256", "u256")), ("bool", "!({a} < {b})", ("u64", "u64")),
    ("u64", "sq({a}) + {b}", ("u64", "u64")), ("u64", "(({a}, {b}).0 ^ ({a}, {b}).1)", ("u64", "u64")),
    ("u64", "P {{ x: {a}, y: {b} }}.x - P {{ x: {a}, y: {b} }}.y", ("u64", "u64")), ("u64", "[{a}, {b}, {a}][1] | [{a}, {b}][0]", ("u64", "u64")),
    ("u64", "pick({a} < {b}, {a}, {b})", ("u64", "u64")),
]
STD_PRELUDE = """
struct P { x: u64, y: u64 }
fn sq(x: u64) -> u64 { x * x }
fn pick(c: bool, a: u64, b: u64) -> u64 { if c { a / 2 } else { b % 7 } }
"""


def std_ref(ty, tmpl, tys, vals):
    """Python reference for whether the expression is evaluable (None = reverts/compile error)."""
    a = vals[0]; b = vals[1] if len(vals) > 1 else 0
    m = (1 << BITS[ty]) - 1 if ty != "bool" else 1
    t = tmpl
    try:
        if t == "{a} + {b}": v = a + b
        elif t == "{a} - {b}": v = a - b
        elif t == "{a} * {b}": v = a * b
        elif t == "{a} / {b}": v = a // b
        elif t == "{a} % {b}": v = a % b
        elif t == "!{a}": v = m - a
        elif t == "{a} << {b}":
            # const_eval: checked_shl declines when the amount reaches 64 (Uint) or bits fall off (u256);
            # stay inside the range where both evaluators give a value
            if b >= BITS[ty] or (a << b) > m: return None
            v = a << b
        elif t == "{a} >> {b}":
            if b >= (256 if ty == "u256" else 64): return None
            v = a >> b
        elif t == "{a} & {b}": v = a & b
        elif t == "{a} ^ {b}": v = a ^ b
        elif t == "{a} > {b}": v = int(a > b)
        elif t == "{a} < {b}": v = int(a < b)
        elif t == "{a} == {b}": v = int(a == b)
        elif t == "{a} >= {b}": v = int(a >= b)
        elif t == "{a} != {b}": v = int(a != b)
        elif t == "!({a} < {b})": v = int(not a < b)
        elif t.startswith("{a}.as_u64()"): v = a + b
        elif t.startswith("{a}.as_u256()"): v = a * b
        elif t.startswith("sq("): v = a * a + b;
        elif t.startswith("(({a}"): v = a ^ b
        elif t.startswith("P {{"): v = a - b
        elif t.startswith("[{a}"): v = b | a
        elif t.startswith("pick("): v = a // 2 if a < b else b % 7
        else: return "?"
    except ZeroDivisionError:
        return None
    if t.startswith("sq(") and a * a > (1 << 64) - 1: return None
    if v < 0 or v > m: return None
    return v


def run(ctx):
    ctx.level = "proof"
    # ---- T-gen
    import facts_c06
    tgen_ok = True
    try:
        facts = facts_c06.generate()
    except facts_c06.FactsError as e:
        tgen_ok = False
        facts = None
        ctx.violation("C06.tgen", {"translator": "tools/facts_c06.py", "error": str(e), "name": "C06.tgen"},
                      "C06.tgen: the Rust source no longer has the shape the facts translator parses: %s" % e, no_input=True)
    guard = facts["u256"]["checked_shl_guard"] if facts else None
    ok, out = coq.check_props(ctx, "C06", extra_targets=["C06/Judge.vo"])
    if not ok:
        ctx.log(out[-2500:])
    ctx.log("facts scraped (%s), proofs %s" % ("ok" if tgen_ok else "FAILED", "checked" if ok else "DO NOT CHECK"))
    binp, bout = rust.build("c06")
    ctx.log("harness built")
    if binp is None:
        ctx.violation("harness-build", {"log": bout[-4000:]}, "harness c06 does not build against /repo", no_input=True)
        return
    quick = ctx.quick
    per = 7 if quick else 40
    cases = gen_cases(ctx.rng, per)
    safe = [c for c in cases if not dangerous(c)]
    dang = [c for c in cases if dangerous(c)]
    # ---- fold + ce, in process (dangerous ones one process each, so an abort is an outcome of that case only)
    nproc = min(NCPU, 8)
    fo = run_harness(binp, "fold", [c.fold_line() for c in safe], nproc)
    co = run_harness(binp, "ce", [c.ce_line() for c in safe], nproc)
    for c, f, e in zip(safe, fo, co):
        c.fold = parse_obs(f) if f is not None else ("err", "no output")
        c.ce = parse_obs(e) if e is not None else ("err", "no output")
    dang = dang[:40 if quick else 400]
    if dang:
        import concurrent.futures as cf
        def one(c):
            r = []
            for mode, line in (("fold", c.fold_line()), ("ce", c.ce_line())):
                try:
                    p = subprocess.run("ulimit -v 8000000; exec %s %s" % (binp, mode), shell=True, input=line + "\n", stdout=subprocess.PIPE,
                                       stderr=subprocess.DEVNULL, text=True, timeout=120)
                    o = [l for l in p.stdout.split("\n") if l.strip()]
                    r.append(parse_obs(o[0]) if o else ("panic", "process died rc=%d (abort: memory allocation failed)" % p.returncode))
                except subprocess.TimeoutExpired:
                    r.append(("panic", "timeout 120 s"))
            return r
        with cf.ThreadPoolExecutor(max_workers=NCPU) as ex:
            for c, (f, e) in zip(dang, ex.map(one, dang)):
                c.fold, c.ce = f, e
    allc = safe + dang
    ctx.log("fold + const_eval observed in process for %d cases" % len(allc))
    # b256 arithmetic is not type-correct: the folder sees only what the verifier lets through
    # ---- useless binary ops
    ul = [(op, side, ty, c) for op in BINOPS for side in ("l", "r") for ty in ("u8", "u64") for c in (0, 1, 2)]
    uo = run_harness(binp, "fold", ["useless %s %s %s %d" % u for u in ul], 2)
    # ---- run time (+ consts) through real packages
    pk_base = os.path.join(ctx.work, "pkgs")
    npk = 12 if quick else 48
    per_pk = 60 if quick else 220
    runnable = [c for c in allc]
    ctx.rng.shuffle(runnable)
    # corpus cases first
    runnable.sort(key=lambda c: 0 if c in cases[:30] else 1)
    runnable = runnable[:npk * per_pk]
    dirs, layout = [], []
    for k in range(npk):
        chunk = runnable[k * per_pk:(k + 1) * per_pk]
        if not chunk: break
        src = ["library;"]
        names = {}
        for i, c in enumerate(chunk):
            src.append(run_fn(i, c)); names["r%d" % i] = (c, "run")
            v = c.ce
            if v and v[0] == "val" and (c.res_ty() not in UINTS or v[1] < (1 << BITS[c.res_ty()])) and i % 2 == 0:
                # a const with the same literal operands, read back at run time (only width-valid results:
                # an out-of-range u8 constant is truncated by its 1-byte slot in debug builds)
                src.append(const_decl(i, c)); src.append(const_fn(i, c)); names["c%d" % i] = (c, "const")
        d = sway.write_pkg(pk_base, "c06_run_%d" % k, {"lib.sw": "\n".join(src) + "\n"})
        dirs.append(d); layout.append(names)
    # std-level expressions
    std_cases = []
    nstd = 60 if quick else 600
    for _ in range(nstd):
        ty, tmpl, tys = ctx.rng.choice(STD_TEMPLATES)
        vals = []
        for t in tys:
            if "<<" in tmpl or ">>" in tmpl:
                vals.append(boundary(ctx.rng, BITS[t]) if not vals else min(shift_amount(ctx.rng, BITS[tys[0]]), (1 << 64) - 1))
            else:
                vals.append(boundary(ctx.rng, BITS[t]))
        if ctx.rng.random() < 0.5 and len(tys) == 2 and tys[0] == tys[1] and tmpl in ("{a} + {b}", "{a} * {b}"):
            vals[1] = boundary(ctx.rng, max(2, BITS[tys[1]] // 2))
        std_cases.append((ty, tmpl, tys, vals, std_ref(ty, tmpl, tys, vals)))
    std_dirs, std_layout = [], []
    per_std = 30 if quick else 45
    for k in range(0, len(std_cases), per_std):
        chunk = std_cases[k:k + per_std]
        src = ["library;", STD_PRELUDE]
        names = {}
        for i, (ty, tmpl, tys, vals, ref) in enumerate(chunk):
            lits = [lit_sway(t, v) for t, v in zip(tys, vals)]
            ops = [opaque(t, v) for t, v in zip(tys, vals)]
            def fill(xs): return tmpl.replace("{{", "\x00").replace("}}", "\x01").replace("{a}", "(" + xs[0] + ")").replace("{b}", "(" + (xs[1] if len(xs) > 1 else "") + ")").replace("\x00", "{").replace("\x01", "}")
            rt = fill(ops)
            # operands bound once so that aggregate templates see the same opaque value
            body = "let a = %s; " % ops[0] + ("let b = %s; " % ops[1] if len(ops) > 1 else "")
            rt2 = tmpl.replace("{{", "\x00").replace("}}", "\x01").replace("{a}", "a").replace("{b}", "b").replace("\x00", "{").replace("\x01", "}")
            logx = (lambda e: "log(asm(r: %s) { r: u64 });" % e) if ty in UINTS else (lambda e: "log(%s);" % e)
            src.append("#[test] fn r%d() { %s %s }" % (i, body, logx(rt2)))
            names["r%d" % i] = (k + i, "run")
            if ref is not None and ref != "?":
                src.append("const K%d: %s = %s;" % (i, ty, fill(lits)))
                src.append("#[test] fn c%d() { %s }" % (i, logx("K%d" % i)))
                names["c%d" % i] = (k + i, "const")
        d = sway.write_pkg(pk_base, "c06_std_%d" % (k // per_std), {"lib.sw": "\n".join(src) + "\n"})
        std_dirs.append(d); std_layout.append(names)
    ctx.log("cases: %d (fold/ce), %d useless, %d run-time in %d packages, %d std-level in %d packages" %
            (len(allc), len(ul), len(runnable), len(dirs), len(std_cases), len(std_dirs)))
    try:
        results = sway.run_pkgs(dirs + std_dirs, release=False)
    except RuntimeError as e:
        ctx.violation("harness-build", {"log": str(e)[-3000:]}, "swayrun does not build", no_input=True)
        return
    pkg_problems = []
    for d, names in zip(dirs, layout):
        r = results[d]
        if r.get("status") != "ok":
            pkg_problems.append((d, r.get("status"), r.get("error", "")[:500])); continue
        for t in r["tests"]:
            if t["name"] not in names: continue
            c, what = names[t["name"]]
            o = parse_log(t)
            if what == "run": c.run = o
            else: c.cpk = o
    std_obs = {}
    for d, names in zip(std_dirs, std_layout):
        r = results[d]
        if r.get("status") != "ok":
            pkg_problems.append((d, r.get("status"), r.get("error", "")[:500])); continue
        for t in r["tests"]:
            if t["name"] not in names: continue
            idx, what = names[t["name"]]
            std_obs.setdefault(idx, {})[what] = parse_log(t)
    std_not_built = 0
    for d, st, err in pkg_problems[:6]:
        if st == "panic":
            ctx.violation("pkg-panic-" + os.path.basename(d), {"package": d, "error": err},
                          "the compiler panicked on a generated C06 package (%s): %s" % (os.path.basename(d), err[:200]))
        elif d in std_dirs:
            # a std-level const the compiler declines to evaluate is a clean compile error: nothing was
            # substituted, so this is lost coverage (counted), not a violation of C06
            std_not_built += 1
            ctx.log("std-level package %s did not build (%s); its cases are not compared" % (os.path.basename(d), st))
        else:
            ctx.violation("pkg-" + os.path.basename(d), {"package": d, "status": st, "error": err, "correspondence": "C06.corr.packages"},
                          "generated C06 package did not build/run (%s): every const in it was evaluated successfully in process, so the build should succeed" % st, no_input=True)
    # ---- judge in Coq
    items = ["(%s, %s, %s, %s)" % (c.coq(), iobs(c.fold), iobs(c.ce), robs(c.run)) for c in allc]
    nsh = min(NCPU, max(1, len(items) // 150))
    psh = (len(items) + nsh - 1) // nsh
    shards = ["Definition cs : list (opr * iobs * iobs * robs) := [\n%s\n].\nEval vm_compute in (judge_all cs)." % ";\n".join(items[k * psh:(k + 1) * psh])
              for k in range(nsh) if items[k * psh:(k + 1) * psh]]
    useless_q = "Eval vm_compute in (map (fun t => match t with (o, s, c) => Fold.useless o s c end) [%s])." % ";".join(
        "(%s, %s, %d%%N)" % (COQ_OP[op], "OnLeft" if side == "l" else "OnRight", c) for op, side, ty, c in ul)
    shards.append(useless_q)
    try:
        res = coq.run_cases(ctx, "c06", "From SwayV Require Import Vm.Alu C06.Types Generated.C06Facts C06.Model C06.Spec C06.Judge.\nOpen Scope N_scope.", shards)
    except RuntimeError as e:
        ctx.violation("model-eval", {"log": str(e)[-3000:], "correspondence": "C06.corr"}, "C06 model/judge could not be evaluated", no_input=True)
        return
    codes = [c for sh_ in res[:-1] for c in sh_[0]]
    assert len(codes) == len(allc), (len(codes), len(allc))
    hist, corr = {}, []
    for c, code in zip(allc, codes):
        hist[code] = hist.get(code, 0) + 1
        if code in (2, 3, 5, 12, 13, 15):
            side = "const_eval.rs" if code >= 10 else "constants.rs (const-folding)"
            ctx.violation(c.key(), c.replay(), "%s: %s for %s  [fold=%s ce=%s run=%s]" % (side, VIOL[code % 10], c.expr(lit_sway), c.fold, c.ce, c.run))
        elif code in (20, 21, 22):
            corr.append((c, code))
        # consts read back at run time must be the const-eval value
        if c.cpk is not None and c.ce and c.ce[0] == "val" and c.cpk != ("val", c.ce[1]):
            ctx.violation("constread_" + c.key(), c.replay(), "const declared with %s evaluates to %s in const_eval but reads back as %s at run time" % (c.expr(lit_sway), c.ce[1], c.cpk))
    names = {20: "C06.corr.fold (constants.rs vs Fold.*)", 21: "C06.corr.ce (const_eval.rs vs CE.*)", 22: "C06.corr.run (fuel-vm vs Run.* / Vm.Alu)"}
    for c, code in corr[:6]:
        ctx.violation("corr_" + c.key(), dict(c.replay(), correspondence=names[code]),
                      "model and implementation differ (%s) on %s while the oracle accepts what the implementation did; the C06 theorems are no longer tied to the code" % (names[code], c.expr(lit_sway)), no_input=True)
    # useless
    model_u = [str(x.head) == "true" if hasattr(x, "head") else bool(x) for x in res[-1][0]]
    u_diff = 0
    for (op, side, ty, cst), o, m in zip(ul, uo, model_u):
        impl = (o or "").strip() == "replaced"
        if impl != m:
            u_diff += 1
            if impl and not m:
                # replaced although the model (and C06_useless_sound) does not cover it: is it sound?
                ctx.violation("useless_%s_%s_%d" % (op, side, cst), {"case": "useless %s %s %s %d" % (op, side, ty, cst), "impl": o, "model": m,
                              "correspondence": "C06.corr.useless"}, "remove_useless_binary_op differs from Fold.useless on (%s, const on %s, %d): impl=%s model=%s" % (op, side, cst, o, m), no_input=True)
            else:
                ctx.violation("useless_%s_%s_%d" % (op, side, cst), {"case": "useless %s %s %s %d" % (op, side, ty, cst), "impl": o, "model": m,
                              "correspondence": "C06.corr.useless"}, "remove_useless_binary_op differs from Fold.useless", no_input=True)
    # std-level: const value vs run-time value, directly
    std_stats = {"both_value_equal": 0, "run_reverts_no_const": 0, "run_only": 0, "ref_mismatch": 0}
    for idx, (ty, tmpl, tys, vals, ref) in enumerate(std_cases):
        o = std_obs.get(idx)
        if not o or "run" not in o: continue
        rt, ct = o["run"], o.get("const")
        rep = {"type": ty, "expr": tmpl, "operand_types": tys, "operands": [str(v) for v in vals], "run_time": rt, "const": ct, "reference": ref}
        key = "std_%s_%s" % (tmpl.replace(" ", ""), "_".join("%x" % v for v in vals))
        if ct is not None:
            if rt[0] == "revert":
                ctx.violation(key, rep, "const with std expression `%s` on %s evaluates to %s at compile time but the same expression reverts at run time" % (tmpl, vals, ct))
            elif rt != ct:
                ctx.violation(key, rep, "const with std expression `%s` on %s is %s at compile time and %s at run time" % (tmpl, vals, ct, rt))
            else:
                std_stats["both_value_equal"] += 1
        elif rt[0] == "revert": std_stats["run_reverts_no_const"] += 1
        else: std_stats["run_only"] += 1
        if ref != "?" and ((ref is None) != (rt[0] == "revert") or (ref is not None and rt != ("val", ref))):
            std_stats["ref_mismatch"] += 1   # python reference only steers which consts are emitted; not a verdict
    # ---- proofs broken: replay the refutation witnesses on the real code before giving up
    if not ok:
        wit = [Case("bin", "mod", "u256", "u256", 1, 0), Case("cmp", "gt", "b256", "b256", 1, 0), Case("bin", "lsh", "u256", "u64", 1, (1 << 64) - 1)]
        found = [c for c in allc if c.key() in {w.key() for w in wit} and ((c.ce and c.ce[0] == "panic") or (c.fold and c.fold[0] == "panic"))]
        if not found:
            ctx.violation("proof", {"theorems": [o for o in ctx.obligations if not o[1]], "log": out[-2000:], "facts": facts and facts["text"][:0]},
                          "C06 proofs do not check over the arm tables scraped from the current sources", no_input=True)
        else:
            ctx.violation("proof", {"theorems": [o[0] for o in ctx.obligations if not o[1]], "witnesses": [c.replay() for c in found]},
                          "C06 proofs do not check; refutation witnesses replayed on the real compiler are reported separately", no_input=True)
    obs_run = sum(1 for c in allc if c.run is not None)
    obs_const = sum(1 for c in allc if c.cpk is not None)
    distinct = len({(c.kind, c.op, c.lty, c.l, c.r) for c in allc if not (c.l in (0, 1) and c.r in (0, 1))})
    per_op = {}
    for c in allc: per_op["%s/%s" % (c.op, c.lty)] = per_op.get("%s/%s" % (c.op, c.lty), 0) + 1
    outcomes = {"fold": {}, "ce": {}, "run": {}}
    for c in allc:
        for nm, o in (("fold", c.fold), ("ce", c.ce), ("run", c.run)):
            k = o[0] if o else "unobserved"
            outcomes[nm][k] = outcomes[nm].get(k, 0) + 1
    ctx.coverage.update({
        "checker_cmd": "python3 tools/facts_c06.py (scrape arm tables) ; make -C coq C06/Props.vo C06/Judge.vo (coqc 8.16.1) ; coqc vm_compute judge over harness + fuel-vm output",
        "trusted_base": ["Coq 8.16.1 kernel + vm_compute", "tools/facts_c06.py (regex translation of match arms to Coq tables; fails loudly on unknown shapes)",
                         "coq/C06/Model.v apply_fn: semantics of u64::checked_*/BigUint operations (read off Rust docs / num-bigint, tied by exact comparison)",
                         "coq/Vm/Alu.v: fuel-vm 0.66.4 interpreter is modelled, tied by exact comparison of logged register/memory results",
                         "harness/src/bin/c06.rs, harness/src/bin/swayrun.rs, props/c06.py (case text, log parsing)"],
        "evaluations": len(allc) + len(ul) + len(std_cases), "distinct_nontrivial": distinct,
        "rule": "operator x kind x boundary-biased operands (0,1,2,max,max-1,max-2,2^(w-1)+-1, 2^k+-1, random bit lengths, max-small; shift amounts around the width, 64, 256, 2^32, 2^63, 2^64-1); non-trivial = not both operands in {0,1}; distinct by (operator, kind, operands)",
        "samples": [dict(case=c.fold_line(), fold=c.fold, ce=c.ce, run=c.run) for c in allc[30:36]],
        "judgements": {str(k): v for k, v in sorted(hist.items())}, "outcomes": outcomes, "cases_per_operator_kind": per_op,
        "run_time_observed": obs_run, "consts_read_back": obs_const, "useless_cases": len(ul), "useless_differences": u_diff,
        "std_level": dict(std_stats, cases=len(std_cases), packages_not_built=std_not_built), "tgen": "ok" if tgen_ok else "FAILED", "checked_shl_guard": guard,
        "dangerous_shift_cases_run_in_own_process": len(dang),
        "explanation": "Theorems quantify over all operands: a folded / const-evaluated value equals what the selected VM instruction computes; a reverting run-time evaluation is never replaced by a value; const-eval and folding never panic on type-correct operations. Known exception proved as a refutation: raw `not` on u8/u16/u32.",
    })
    ctx.assumptions += ["model = code established by exact comparison on the generated cases only (constants.rs, const_eval.rs, fuel-vm)",
                        "std-level operators, casts, aggregates and const fn calls are compared compile time vs run time directly, without a Coq model",
                        "configurables use the same const_eval entry point as const declarations and are not exercised separately"]
