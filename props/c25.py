"""C25 — dirty-file flags are never lost between processes.
Theorems: coq/C25/Props.v (LTS over the system calls of forc_util::fs_locking, unbounded schedules).
Validation: the REAL PidFileLocking is driven step by step through the cfg(fuellabs_sway_verif) gates
along every interleaving of small programs (stateless DFS inside harness bin c25, agents = threads with
injected pids; the refutation schedules also with real child processes); every observed file state,
gate label and return value must equal the model's (C25/Judge.v), and the safety monitor is run on the
observed returns."""
import os, shutil, concurrent.futures as cf
from vlib import coq, rust
from vlib.core import NCPU

OPS = {"c": 2, "k": 3, "r": 4, "i": 5, "g": 6}
LABELS = {"c_list": 1, "c_open": 2, "c_read": 3, "c_ps": 4, "c_unlink": 5, "g_open": 6, "g_read": 7,
          "g_ps": 8, "g_unlink": 9, "r_unlink": 10, "l_create": 11, "l_write": 12}
KEYS = {1: "cleanup-between-create-and-write", 2: "toctou-remove-after-relock",
        3: "lock-check-then-create-race"}
WHAT = {1: "cleanup_stale_files of another process unlinks the lock file between File::create and write_all of lock(); the pid is written into an unlinked inode and the flag is invisible",
        2: "a process that has read a dead owner's pid unlinks the path after another process re-locked it (get_locker_pid/cleanup TOCTOU)",
        3: "two lock()/release() calls interleave between the is_locked check and create/write/remove: one live holder's flag is overwritten or removed by the other"}
REFUTATIONS = [
    "a;0Sk 0. 0. 0. 1Sc 1. 1. 1. 1. 0. 1Si 1.",
    "p107;1Si 1. 1. 1. 0Sk 0. 0. 0. 0. 0. 0. 0. 1. 1Si 1.",
    "a;0Sk 1Sk 0. 1. 0. 1. 0. 1. 0. 1. 1Si 1. 1. 1.",
    # forc-fmt's is_file_dirty (= new/cleanup + is_locked) against the LSP's mark_file_as_dirty
    "a;0Sc 0. 0Sk 0. 0. 0. 1Sc 1. 1. 1. 1. 0. 1Sc 1. 1Si 1.",
]


def view_code(v):
    if v == "a": return 0
    if v == "e": return 1
    if v == "g": return 2
    if v.startswith("p"): return 3 + int(v[1:]) - 100
    return 98


def ret_code(r):
    if r in ("f", "t", "n", "o", "x"): return {"f": 1, "t": 2, "n": 3, "o": 4, "x": 5}[r]
    if r.startswith("u"): return 6 + int(r[1:])
    if r.startswith("s"): return 10 + int(r[1:]) - 100
    return 99     # panic or protocol problem: never equals the model


def pack(o):
    q, a, v, r, c = o
    return (((q * 8 + a) * 128 + v) * 128 + r) * 16 + c


def parse_line(line):
    """-> (init code, [(actor, act, view, ret, pc)], panicked)"""
    init, rest = line.split(";", 1)
    ic = {"a": 0, "e": 1, "g": 2}.get(init)
    if ic is None: ic = 3 + int(init[1:]) - 100
    obs, panicked = [], False
    for tok in rest.split():
        lab, o = tok.split("=", 1)
        q = int(lab[0]); kind = lab[1]
        act = 0 if kind == "." else 1 if kind == "X" else OPS[lab[2]]
        if "!" in o:
            obs.append((q, act, 98, 98, 98)); continue
        if "@" in o:
            v, l = o.split("@"); obs.append((q, act, view_code(v), 0, LABELS.get(l, 97)))
        elif ":" in o:
            v, r = o.split(":"); rc = ret_code(r); panicked |= rc == 99
            obs.append((q, act, view_code(v), rc, 0))
        else:
            obs.append((q, act, view_code(o), 0, 13))
    return ic, obs, panicked


def jobs_for(ctx):
    """(nprocs, init, programs, crash agent, limit).  Quick: every job is exhaustive (limit not hit)."""
    J = []
    big = 30000
    quick2 = [("a", "kr/ci"), ("e", "kr/ci"), ("a", "kr/ck"), ("a", "ki/ki"), ("a", "kr/ri"), ("e", "kr/ri"),
              ("a", "ck/ci"), ("e", "ck/ci"), ("a", "kr/gc"), 
              ("a", "kk/ci"), ("a", "rk/ic"), ("p107", "rk/ic"), ("e", "rk/ic"), ("a", "kg/ck"), ("a", "ki/cr"),
              ("p107", "k/ci"), ("p107", "k/k"), ("p107", "kr/i"), ("p107", "kr/c"), ("p107", "ck/i"), ("p107", "ck/c"),
              ("a", "kr/k"), ("e", "kr/k"), ("a", "ki/k"), ("g", "ki/k")]
    for ini, p in quick2:
        J.append((2, ini, p.split("/"), None, big))
    J.append((2, "a", ["kr", "ci"], 0, big))          # one crash of the locker at every position
    J.append((2, "a", ["k", "ki"], 0, big))
    J.append((2, "p107", ["k", "ci"], 1, big))
    J.append((3, "a", ["k", "c", "i"], None, big))
    J.append((3, "a", ["k", "i", "k"], None, big))
    if not ctx.quick:
        ops2 = [a + b for a in "ckrig" for b in "ckrig"]
        for p0 in ops2:
            for p1 in ops2:
                if p0 <= p1:
                    for ini in ("a", "p107", "e", "g"):
                        J.append((2, ini, [p0, p1], None, 300))
        for a in "ckri":
            for b in "ckri":
                for c in "ckri":
                    for ini in ("a", "p107"):
                        J.append((3, ini, [a, b, c], None, 1000))
        for p in [["kr", "c", "i"], ["k", "ci", "k"], ["kr", "k", "i"]]:
            J.append((3, "a", p, None, 10000)); J.append((3, "a", p, 0, 10000))
    return J


def run(ctx):
    ctx.level = "proof"
    ok, out = coq.check_props(ctx, "C25", extra_targets=["C25/Judge.vo"])
    if not ok:
        ctx.log(out[-3000:])
        ctx.violation("proof", {"theorems": [o for o in ctx.obligations if not o[1]], "log": out[-2000:]},
                      "C25 proofs do not check", no_input=True)
    binp, bout = rust.build("c25")
    if binp is None:
        ctx.violation("harness-build", {"log": bout[-4000:]}, "harness c25 does not build against /repo", no_input=True)
        return
    # transient lock directories: tmpfs if there is one (fsync in lock() is slow on disk)
    base = "/dev/shm/verif-C25-%d" % os.getpid() if os.path.isdir("/dev/shm") else os.path.join(ctx.work, "homes")
    shutil.rmtree(base, ignore_errors=True)
    os.makedirs(base, exist_ok=True)
    try:
        _run(ctx, binp, base, ok)
    finally:
        shutil.rmtree(base, ignore_errors=True)


def _run(ctx, binp, base, proofs_ok):
    jobs = jobs_for(ctx)
    byn = {2: [], 3: []}
    for j in jobs: byn[j[0]].append(j)
    tasks = []     # (nprocs, [jobs])
    for n, js in byn.items():
        nsh = max(1, min(4 * NCPU, len(js)))
        for k in range(nsh):
            part = js[k::nsh]
            if part: tasks.append((n, part))

    def enum_task(idx_task):
        idx, (n, part) = idx_task
        home = os.path.join(base, "e%d" % idx)
        os.makedirs(home, exist_ok=True)
        inp = "".join("%s|%s|%s|%d\n" % (ini, "/".join(progs), "-" if cr is None else cr, lim)
                      for (_, ini, progs, cr, lim) in part)
        rc, outp = rust.run(binp, ["enum", home, str(n)], input=inp, timeout=2400)
        return n, rc, outp

    cases, truncated, runs = [], 0, 0      # case = (n, line, mode)
    with cf.ThreadPoolExecutor(max_workers=NCPU) as ex:
        for n, rc, outp in ex.map(enum_task, enumerate(tasks)):
            if rc != 0:
                ctx.violation("harness-run", {"rc": rc, "out": outp[-2000:]}, "harness c25 enum failed", no_input=True)
                return
            for l in outp.split("\n"):
                if l.startswith("#done"):
                    runs += 1
                    f = l.split()
                    if int(f[-1]) >= int(f[1].split("|")[3]): truncated += 1
                elif l.strip():
                    cases.append((n, l.strip(), "threads"))
    # the refutation schedules with REAL processes (and with threads)
    for mode in ("procs", "threads"):
        home = os.path.join(base, "r_" + mode)
        os.makedirs(home, exist_ok=True)
        rc, outp = rust.run(binp, ["drive", mode, home, "2"], input="\n".join(REFUTATIONS) + "\n", timeout=300)
        ls = [l for l in outp.split("\n") if l.strip()]
        if rc != 0 or len(ls) != len(REFUTATIONS):
            ctx.violation("harness-run", {"rc": rc, "out": outp[-2000:]}, "harness c25 drive %s failed" % mode, no_input=True)
            return
        cases = [(2, l, mode + "-refutation") for l in ls] + cases
    ctx.log("%d schedules driven on the real implementation (%d jobs, %d truncated by limit)" % (len(cases), runs, truncated))

    parsed = [parse_line(l) for _, l, _ in cases]
    items = []
    for (n, _, _), (ic, obs, _) in zip(cases, parsed):
        items.append("(%d,%d,[%s])" % (n, ic, ";".join(str(pack(o)) for o in obs)))
    nsh = max(min(NCPU, max(1, len(items) // 300)), (len(items) + 5999) // 6000)
    per = (len(items) + nsh - 1) // nsh
    shards = []
    for k in range(nsh):
        chunk = items[k * per:(k + 1) * per]
        if chunk:
            shards.append("Open Scope N_scope.\nDefinition cs : list (N * N * list obs) := [\n%s\n].\nEval vm_compute in (judge_all cs)."
                          % ";\n".join(chunk))
    try:
        res = coq.run_cases(ctx, "c25", "From SwayV Require Import Base.Util C25.Model C25.Spec C25.Judge.", shards, timeout=2400)
    except RuntimeError as e:
        ctx.violation("model-eval", {"log": str(e)[-3000:]}, "C25 model/judge could not be evaluated (correspondence C25.corr not checked)", no_input=True)
        return
    verdicts = [v for sh_ in res for v in sh_[0]]
    assert len(verdicts) == len(cases), (len(verdicts), len(cases))

    hist = {"agree-safe": 0, "agree-flag-lost": 0, "differ": 0}
    byclass, corr, refuted_real = {}, [], {}
    distinct = set()
    for (n, line, mode), (ic, obs, panicked), (diff, bad_obs, bad_mod, cls, stale) in zip(cases, parsed, verdicts):
        sched = line.split(";")[0] + ";" + " ".join(t.split("=")[0] for t in line.split(";", 1)[1].split())
        if len({o[0] for o in obs}) >= 2: distinct.add((n, sched))
        rep = {"nprocs": n, "schedule": sched, "observed": line, "mode": mode,
               "replay_cmd": "echo '%s' | harness/target/debug/c25 drive %s <home> %d" % (sched, "procs" if mode.startswith("procs") else "threads", n)}
        if panicked:
            ctx.violation("panic:" + sched[:60], rep, "fs_locking panicked under schedule " + sched)
            continue
        if stale:
            ctx.violation("stale-flag-reported:" + sched[:60], rep, "a dead owner's flag was reported as set (get_locker_pid returned a pid dead at call start, or is_locked returned true with every other process dead); schedule " + sched)
            hist["differ"] += 1
            continue
        if bad_obs:
            # the implementation's own returns violate S
            if diff == 0 and cls in KEYS:
                key = KEYS[cls]
                byclass[key] = byclass.get(key, 0) + 1
                if mode.startswith("procs"): refuted_real[key] = sched
                ctx.violation(key, rep, "flag lost: " + WHAT[cls] + "; schedule " + sched)
            else:
                ctx.violation("flag-lost:" + sched[:70], rep, "an is_locked started while a live process held the flag returned false (unclassified; first difference to model at step %d, hazard class %d); schedule %s" % (diff, cls, sched))
            hist["agree-flag-lost" if diff == 0 else "differ"] += 1
        elif diff != 0 or bad_mod:
            hist["differ"] += 1
            corr.append((sched, dict(rep, first_difference_at_step=diff, correspondence="C25.corr (Judge.compare)")))
        else:
            hist["agree-safe"] += 1
            if cls == 0 and False: pass
    for sched, rep in corr[:5]:
        ctx.violation("corr:" + sched[:70], rep,
                      "model and implementation differ at step %d of schedule %s while the observed returns satisfy S: the C25 theorems are no longer tied to the code" % (rep["first_difference_at_step"], sched),
                      no_input=True)
    # the three refutation witnesses must reproduce with real processes
    for key in KEYS.values():
        if key not in refuted_real and not corr:
            ctx.notes.append("refutation %s did not reproduce with real processes" % key)
    if not ctx.known.findings.get(ctx.pid) and not byclass and proofs_ok:
        # theorem C25_flag_lost_refuted speaks of the model; if the code no longer loses the flag the
        # model is stale -- reported as a correspondence break above (differ > 0).
        pass
    safe_nonexcluded = sum(1 for v in verdicts if v[3] == 0)
    ctx.coverage.update({
        "checker_cmd": "make -C coq C25/Props.vo (coqc 8.16.1) + coqc vm_compute C25/Judge.judge_all over harness output",
        "trusted_base": ["Coq 8.16.1 kernel + vm_compute", "harness/src/bin/c25.rs (gate protocol, observation of the path after each step)",
                         "props/c25.py (encoding of observations)", "hook forc-util/src/fs_locking.rs (cfg fuellabs_sway_verif): step points, injected pid and liveness",
                         "OS semantics of open/create(O_TRUNC)/write/unlink/readdir are modelled (C25/Model.v), tied by exact step-by-step comparison on Linux (tmpfs or ext4)"],
        "evaluations": len(cases), "distinct_nontrivial": len(distinct),
        "rule": "maximal interleavings (stateless DFS on the real code) of per-process programs over {cleanup/new, lock, release, is_locked, get_locker_pid}; 2 processes x 2 calls (quick) from initial file absent / stale pid / empty / garbage, one crash position of the locker, 3 processes x 1 call; thorough: all 2-call program pairs, 3 processes; start of a call fused with its first step (latest start = most obligations); distinct by (nprocs, init, schedule), non-trivial = at least two processes take steps",
        "samples": [{"nprocs": n, "observed": l[:400]} for n, l, _ in cases[4:8]],
        "jobs": len(jobs), "jobs_truncated_by_limit": truncated,
        "judgements": hist, "flag_lost_by_class": byclass,
        "schedules_outside_excluded_class": safe_nonexcluded,
        "refutations_reproduced_with_real_processes": refuted_real,
        "explanation": "Unbounded theorems over the LTS: stale flags are reported clear; lock/release refuse while a live flag is present; safety holds for every schedule outside the decidable class `excluded` (a file-system change by one process while another is between its look at the file and its dependent action); the full safety statement is refuted by three explicit schedules, each reproduced on the real code (threads and real processes). Every enumerated schedule is compared step by step (file state, next gate label, return value) with the model.",
    })
    ctx.assumptions += ["model = code is established by exact step-by-step comparison on the enumerated schedules only",
                        "pids are not reused by the OS; pid strings have equal length; only NotFound I/O errors; file content is valid UTF-8",
                        "a crash is process death (file contents persist), not power loss"]
