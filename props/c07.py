"""C07 — assembly-level optimisations preserve behaviour.
Theorems: coq/C07/Props.v (deletion simulation + per-pass instances under a decidable side condition,
round driver).  Correspondence: every (enter, exit) dump pair of the five modelled passes must equal the
Coq model's output exactly and satisfy the side condition of its theorem (judged in Coq).  The property
itself: every package is built and run with the asm optimiser on and off (hook VERIF_ASM_NOOPT=1) and
must give identical test outcomes and receipts.  constant_propagate and const_indexing_aggregates are
covered ONLY by that behavioural comparison."""
import os, glob, json, time
from vlib import coq, rust, sway
from vlib.core import NCPU
from props import c08_asm as A
from props import c08 as C08

PASS = {"remove_sequential_jumps": 1, "remove_redundant_moves": 2, "remove_redundant_ops": 3, "dce": 4, "simplify_cfg": 5,
        "constant_propagate": 6}   # 6: judged by the proved validator (judge_cp), not by a model of the pass
QUICK_STD = ["ops", "flags", "assert"]
QUICK_E2E = 3
HEADER = ("From SwayV Require Import Base.Util Asm.Model C08.Spec C08.Model C07.Model C07.Spec C07.CpModel C07.Judge.\n"
          "Local Open Scope N_scope.\n")


def gen_effects_pkg(rng, base, name, nfn):
    """functions with foldable constants, dead values, branches and loops; results are logged"""
    src, tests = "library;\n\n", ""
    for k in range(nfn):
        c = [rng.randint(1, 50) for _ in range(6)]
        src += ("#[inline(never)]\nfn g%d(a: u64, b: u64) -> u64 {\n"
                "    let dead = a * %d + %d;\n    let k = %d + %d;\n    let mut s = k * 2;\n    let mut i = 0;\n"
                "    while i < b {\n        if (i %% 2) == 0 { s = s + a; } else { s = s + %d; }\n        i = i + 1;\n    }\n"
                "    if a > %d { s + 1 } else { s + k }\n}\n\n") % (k, c[0], c[1], c[2], c[3], c[4], c[5])
        for (a, b) in [(0, 0), (rng.randint(1, 99), rng.randint(1, 9)), (rng.randint(50, 99), 3)]:
            tests += "#[test]\nfn t_g%d_%d_%d() {\n    log(g%d(%d, %d));\n}\n" % (k, a, b, k, a, b)
    tests += ("#[test(should_revert)]\nfn t_rev() {\n    let x = g0(1, 2);\n    if x > 0 { revert(%d); }\n}\n" % rng.randint(1, 1000))
    return sway.write_pkg(base, name, {"lib.sw": src + tests})


MAXU = 2**64 - 1
ALU_CASES = {
    "add": ([0, 1, 2, MAXU], [0, 1, MAXU]), "sub": ([0, 1, 2, MAXU], [0, 1, 2, MAXU]), "mul": ([0, 1, 2, MAXU], [0, 1, 2, MAXU]),
    "div": ([0, 1, 7, MAXU], [0, 1, 2]), "mod": ([0, 1, 7, MAXU], [0, 1, 2]), "exp": ([0, 1, 2, MAXU], [0, 1, 2, 63, 64]),
    "and": ([0, 1, 255, MAXU], [0, 1, MAXU]), "or": ([0, 1, 255, MAXU], [0, 1, MAXU]), "xor": ([0, 1, 255, MAXU], [0, 1, MAXU]),
    "sll": ([0, 1, 255, MAXU], [0, 1, 63, 64, 65, 255]), "srl": ([1, 255, MAXU], [0, 1, 63, 64, 65, 255]),
    "eq": ([0, 1, MAXU], [0, 1, MAXU]), "lt": ([0, 1, MAXU], [0, 1, MAXU]), "gt": ([0, 1, MAXU], [0, 1, MAXU]),
    "mlog": ([0, 1, 8, MAXU], [0, 1, 2]), "mroo": ([0, 1, 8, MAXU], [0, 1, 2]),
}


def gen_alu_pkg(base, name, shapes=("cc", "oc", "co")):
    """one test per (ALU op, left, right, shape): the op is executed in an asm block (opaque to the IR
    optimiser, so the asm-level constant propagation sees it) with boundary operands; shape cc = both
    operands constants known to the asm optimiser (u64::MAX is made with `not` of 0), oc / co = left / right
    operand comes out of a non-inlined identity function (unknown). The result is logged; traps end the test."""
    src = "library;\n\n#[inline(never)]\nfn opq(x: u64) -> u64 {\n    x\n}\n\n"
    n = 0
    def operand(regname, v, opaque):
        # returns (let-prefix, asm init, asm pre-instructions)
        if opaque:
            return "    let %s_v = opq(%s);\n" % (regname, "u64::max()" if v == MAXU else str(v)), "%s: %s_v" % (regname, regname), ""
        if v == MAXU:
            return "", "%s" % regname, "        not %s zero;\n" % regname
        return "", "%s: %d" % (regname, v), ""
    for op, (ls, rs) in ALU_CASES.items():
        for l in ls:
            for r in rs:
                for sh in shapes:
                    pl, il, xl = operand("a", l, sh[0] == "o")
                    pr, ir, xr = operand("b", r, sh[1] == "o")
                    src += ("#[test]\nfn t_%s_%s_%s_%s() {\n%s%s    let res = asm(%s, %s, r) {\n%s%s        %s r a b;\n        r: u64\n    };\n    log(res);\n}\n\n"
                            % (op, "m" if l == MAXU else l, "m" if r == MAXU else r, sh, pl, pr, il, ir, xl, xr, op))
                    n += 1
    for v in (0, 1, 255, MAXU):
        for sh in ("c", "o"):
            pl, il, xl = operand("a", v, sh == "o")
            src += "#[test]\nfn t_not_%s_%s() {\n%s    let res = asm(%s, r) {\n%s        not r a;\n        r: u64\n    };\n    log(res);\n}\n\n" % ("m" if v == MAXU else v, sh, pl, il, xl)
    return sway.write_pkg(base, name, {"lib.sw": src})


def pairs_from_dump(path, max_ops=None):
    """(pass, enter, exit) per pass application; stops reading once max_ops ops of modelled passes were seen"""
    pend, out, seen_ops = {}, [], 0
    def emit(p, e, x):
        nonlocal seen_ops
        if p in PASS:
            out.append((p, e, x)); seen_ops += len(e["ops"]["ops"])
    for r in A.read_dump(path):
        if r["kind"] != "asm_pass": continue
        v, tid = r["v"], r["tid"]
        if v["at"] == "enter":
            if tid in pend: emit(pend[tid]["pass"], pend[tid], pend[tid])   # early return: identity
            pend[tid] = v
        else:
            e = pend.pop(tid, None)
            if e is None or e["pass"] != v["pass"]:
                raise ValueError("unpaired exit record for pass %s" % v["pass"])
            emit(v["pass"], e, v)
        if max_ops is not None and seen_ops > max_ops:
            return out
    for e in pend.values(): emit(e["pass"], e, e)
    return out


def observable(t):
    rec = [{k: v for k, v in r.items() if k in ("k", "ra", "rb", "rc", "rd", "data", "val", "reason", "result")} for r in t.get("receipts", [])]
    return {"passed": t.get("passed"), "state": t.get("state"), "receipts": rec}


def run(ctx):
    ctx.level = "translation_validation"
    coq.build(["C07/Judge.vo"])      # first, so that the Props.v output is not interleaved by make -j
    ok, out = coq.check_props(ctx, "C07")
    if not ok:
        ctx.log(out[-3000:])
        ctx.violation("proof", {"theorems": [o for o in ctx.obligations if not o[1]], "log": out[-2000:]},
                      "C07 proofs do not check", no_input=True)
    base, dumps = os.path.join(ctx.work, "pkgs"), os.path.join(ctx.work, "dumps")
    os.makedirs(base, exist_ok=True)
    std_names = sorted(os.path.relpath(os.path.dirname(p), C08.ILT) for p in glob.glob(C08.ILT + "/**/Forc.toml", recursive=True))
    e2e_names = sorted(os.path.basename(os.path.dirname(p)) for p in glob.glob(C08.E2E + "/*/Forc.toml"))
    if ctx.quick:
        std_sel = [n for n in QUICK_STD if n in std_names]
        e2e_sel = ctx.rng.sample(e2e_names, min(QUICK_E2E * 3, len(e2e_names)))
    else:
        # asm_pass dumps of the big std test packages run to gigabytes: keep the ones below 700 source lines
        std_sel = [n for n in std_names if A.src_lines(os.path.join(C08.ILT, n)) < 700]
        e2e_sel = e2e_names
    pkgs, kinds_of = [], {}
    for n in std_sel:
        d = A.prepare_pkg(os.path.join(C08.ILT, n), base, "std_" + n.replace("/", "_"))
        if d: pkgs.append(d); kinds_of[d] = "std-test"
    ne = 0
    for n in e2e_sel:
        if ctx.quick and ne >= QUICK_E2E: break
        d = A.prepare_pkg(os.path.join(C08.E2E, n), base, "e2e_" + n)
        if d: pkgs.append(d); kinds_of[d] = "e2e-language"; ne += 1
    for src in sorted(glob.glob(os.path.join(os.path.dirname(os.path.dirname(os.path.abspath(__file__))), "corpus", "C07", "*", "Forc.toml"))):
        d = A.prepare_pkg(os.path.dirname(src), base)
        if d: pkgs.append(d); kinds_of[d] = "corpus"
    rel = set()
    # corpus packages whose name ends in _pow / starts with rel_ need the release profile to reach the asm shapes
    for d in pkgs:
        if kinds_of.get(d) == "corpus" and (os.path.basename(d).startswith("rel_") or os.path.basename(d) == "zero_div_pow"):
            rel.add(d)
    # boundary ALU shapes at asm level, debug and release (constant_propagate folds/identities/immediates)
    d = gen_alu_pkg(base, "alu_dbg", ("cc", "oc") if ctx.quick else ("cc", "oc", "co")); pkgs.append(d); kinds_of[d] = "generated-alu"
    d = gen_alu_pkg(base, "alu_rel", ("cc", "co") if ctx.quick else ("cc", "oc", "co")); pkgs.append(d); kinds_of[d] = "generated-alu-release"; rel.add(d)
    for k in range(1 if ctx.quick else 5):
        d = gen_effects_pkg(ctx.rng, base, "fx_%d" % k, 4 if ctx.quick else 10); pkgs.append(d); kinds_of[d] = "generated-effects"
        d, _ = C08.gen_spill_pkg(ctx.rng, base, "sp_%d" % k, 2 if ctx.quick else 5); pkgs.append(d); kinds_of[d] = "generated-spill"
        d = gen_effects_pkg(ctx.rng, base, "fxr_%d" % k, 4 if ctx.quick else 10); pkgs.append(d); kinds_of[d] = "generated-effects-release"; rel.add(d)
    # a second copy of every package for the optimiser-off build (forc writes into the package dir)
    import shutil
    base2 = os.path.join(ctx.work, "pkgs_noopt")
    if os.path.exists(base2): shutil.rmtree(base2)
    twin = {}
    for d in pkgs:
        twin[d] = os.path.join(base2, os.path.basename(d)); shutil.copytree(d, twin[d])
    rel2 = {twin[d] for d in rel}
    t0 = time.time()
    try:
        half = max(1, NCPU // 2)
        import concurrent.futures as cf
        with cf.ThreadPoolExecutor(max_workers=2) as ex:
            fa = ex.submit(A.run_pkgs_dump, pkgs, dumps, "asm_pass", rel, None, 1500, half, "_opt")
            fb = ex.submit(A.run_pkgs_dump, [twin[d] for d in pkgs], dumps, "", rel2, {"VERIF_ASM_NOOPT": "1"}, 1500, half, "_noopt")
            ra, rb2 = fa.result(), fb.result()
            rb = {d: rb2[twin[d]] for d in pkgs}
    except RuntimeError as e:
        ctx.violation("harness-build", {"log": str(e)[-3000:]}, "swayrun does not build against /repo", no_input=True)
        return
    infra = []
    for d in pkgs:   # a killed build (overloaded machine) is retried alone, never a violation
        if ra[d][0].get("status") == "harness_error":
            ra.update(A.run_pkgs_dump([d], dumps, "asm_pass", rel, None, 1500, 1, "_opt"))
            if ra[d][0].get("status") == "harness_error": infra.append(os.path.basename(d) + "_opt")
        if rb[d][0].get("status") == "harness_error":
            rb[d] = A.run_pkgs_dump([twin[d]], dumps, "", rel2, {"VERIF_ASM_NOOPT": "1"}, 1500, 1, "_noopt")[twin[d]]
            if rb[d][0].get("status") == "harness_error": infra.append(os.path.basename(d) + "_noopt")
    ctx.log("built and ran %d packages twice in %.0fs" % (len(pkgs), time.time() - t0))
    # ---- the property: optimiser on == optimiser off
    ntests = ndiff = 0
    differing = set()
    status = {}
    samples = []
    for d in pkgs:
        a, b = ra[d][0], rb[d][0]
        st = "%s/%s" % (a.get("status"), b.get("status")); status[st] = status.get(st, 0) + 1
        if "harness_error" in st: continue
        if a.get("status") != b.get("status"):
            # one of the two builds failed (e.g. unoptimised code hits a size limit): nothing to compare
            ctx.log("not comparable: %s opt=%s noopt=%s" % (os.path.basename(d), a.get("status"), b.get("status")))
            continue
        if a.get("status") != "ok": continue
        ta, tb = {t["name"]: t for t in a["tests"]}, {t["name"]: t for t in b["tests"]}
        for name in sorted(set(ta) | set(tb)):
            ntests += 1
            oa, ob = observable(ta.get(name, {})), observable(tb.get(name, {}))
            if len(samples) < 3 and oa["receipts"]: samples.append({"pkg": os.path.basename(d), "test": name, "observable": oa})
            if oa != ob:
                ndiff += 1; differing.add(d)
                ctx.violation("diff-%s-%s" % (os.path.basename(d), name), {"pkg": d, "test": name, "optimised": oa, "unoptimised": ob,
                                                                          "replay": "swayrun %s with and without VERIF_ASM_NOOPT=1" % d},
                              "test %s of %s behaves differently with the asm optimiser on (%s) and off (%s)" % (name, os.path.basename(d), oa["state"], ob["state"]))
    # ---- correspondence: modelled passes = real passes, side conditions of the theorems
    budget = 60000 if ctx.quick else 2500000
    seen, cases, total_ops, npairs, skipped = set(), [], 0, 0, 0
    order = sorted(pkgs, key=lambda d: (0 if kinds_of[d] == "corpus" else 1 if kinds_of[d].startswith("generated") else 2, d))
    for d in order:
        dump = ra[d][1]
        try:
            ps = pairs_from_dump(dump, max_ops=4 * budget)
        except ValueError as e:
            ctx.violation("dump-pairing", {"pkg": d, "error": str(e)}, "asm_pass dump cannot be paired: %s" % e, no_input=True)
            continue
        if not ctx.quick and os.path.exists(dump): os.remove(dump)    # dumps are large
        for p, e, x in ps:
            if p not in PASS or not e["ops"]["ops"]: continue
            npairs += 1
            key = A.digest(p, [o["t"] for o in e["ops"]["ops"]], [o["t"] for o in x["ops"]["ops"]])
            if key in seen: continue
            seen.add(key)
            n = len(e["ops"]["ops"])
            if total_ops + n > budget: skipped += 1; continue
            total_ops += n
            cases.append((p, e, x, d))
    texts = []
    for p, e, x, d in cases:
        itn = A.Interner()
        try:
            if PASS[p] == 6:
                texts.append("Eval vm_compute in (judge_cp %s %s)." % (A.ops_term(e["ops"], itn), A.ops_term(x["ops"], itn)))
            else:
                texts.append("Eval vm_compute in (judge_pass %d %s %s)." % (PASS[p], A.ops_term(e["ops"], itn), A.ops_term(x["ops"], itn)))
        except ValueError as err:
            texts.append(None)
            ctx.violation("dump-parse", {"pkg": d, "error": str(err)}, "dump could not be translated: %s" % err, no_input=True)
    work = sorted([(len(t), i, t) for i, t in enumerate(texts) if t], reverse=True)
    hist, side_hist, cp_hist = {}, {}, {}
    if work:
        nsh = min(NCPU, len(work))
        shards, loads = [[] for _ in range(nsh)], [0] * nsh
        for sz, i, t in work:
            k = loads.index(min(loads)); shards[k].append((i, t)); loads[k] += sz
        t0 = time.time()
        try:
            outs = coq.run_cases(ctx, "c07", HEADER, ["\n".join(t for _, t in sh) for sh in shards], timeout=2400)
        except RuntimeError as e:
            ctx.violation("model-eval", {"log": str(e)[-3000:]}, "C07 judge could not be evaluated", no_input=True)
            return
        ctx.log("judged %d pass applications (%d ops) in %.0fs" % (len(work), total_ops, time.time() - t0))
        for sh, rs in zip(shards, outs):
            if len(sh) != len(rs):
                ctx.violation("model-eval-count", {"expected": len(sh), "got": len(rs)}, "judge output count mismatch", no_input=True)
                return
            for (i, _), r in zip(sh, rs):
                if PASS[cases[i][0]] == 6:
                    p, e, x, d = cases[i]
                    fn = e.get("function") or next((o["t"] for o in e["ops"]["ops"] if o["kind"]["k"] == "label"), "?")
                    bt, at = [o["t"] for o in e["ops"]["ops"]], [o["t"] for o in x["ops"]["ops"]]
                    cp_hist["functions"] = cp_hist.get("functions", 0) + 1
                    cp_hist["rewrites"] = cp_hist.get("rewrites", 0) + sum(1 for u, v in zip(bt, at) if u != v)
                    for where in [int(w) for w in r]:
                        b_op = bt[where] if where < len(bt) else "?"; a_op = at[where] if where < len(at) else "?"
                        mn = b_op.split()[0] if b_op.split() else ""
                        if mn == "jnzi" and a_op == "noop":
                            cls = "jnz-to-noop-flags-unverified"     # the NOOP clears $of/$err, the JNZ did not (same class as remove_sequential_jumps)
                        elif mn in ("mlog", "mroo"):
                            cls = "mlog-mroo-fold-unverified"        # no Vm.Alu model of MLOG/MROO
                        else:
                            cls = "rejected"
                        cp_hist[cls] = cp_hist.get(cls, 0) + 1
                        if cls == "rejected":
                            rep = {"pkg": d, "pass": p, "function": fn, "index": where, "before": b_op, "after": a_op,
                                   "enter_near": bt[max(0, where - 6):where + 2], "exit_near": at[max(0, where - 6):where + 2],
                                   "theorem": "C07_cp_validator_sound does not apply: the rewrite is not justified by Vm.Alu under the re-derived known values"}
                            if d in differing:
                                cp_hist["rejected-with-behavioural-difference-reported"] = cp_hist.get("rejected-with-behavioural-difference-reported", 0) + 1
                            else:
                                ctx.violation("cp-%s-%s-%d" % (os.path.basename(d), fn, where), rep,
                                              "constant_propagate in %s/%s rewrote op %d `%s` to `%s`, which the validator cannot justify (VM semantics of the known operands / trap cases)"
                                              % (os.path.basename(d), fn, where, b_op, a_op), no_input=True)
                    continue
                code, where, side = int(r[0]), int(r[1]), int(r[2])
                p, e, x, d = cases[i]
                hist.setdefault(p, {}); hist[p][code] = hist[p].get(code, 0) + 1
                fn = e.get("function") or next((o["t"] for o in e["ops"]["ops"] if o["kind"]["k"] == "label"), "?")
                near = lambda ops: [o["t"] for o in ops["ops"][max(0, where - 3):where + 4]]
                rep = {"pkg": d, "pass": p, "function": fn, "index": where, "enter_near": near(e["ops"]), "exit_near": near(x["ops"]),
                       "correspondence": "C07.corr/%s_exact" % p}
                if code == 1:
                    ctx.violation("model-%s-%s-%s" % (p, os.path.basename(d), fn), rep,
                                  "pass %s on %s/%s: the real output differs from the Coq model at op %d; no behavioural difference was observed, but the theorem for this pass no longer speaks about the code" % (p, os.path.basename(d), fn, where),
                                  no_input=True)
                elif code != 0:
                    ctx.violation("model-run-%s-%s" % (p, fn), dict(rep, code=code), "model of pass %s cannot be evaluated (code %d)" % (p, code), no_input=True)
                # precondition of the pass's preservation theorem (use/def table well-formedness; for
                # remove_sequential_jumps also: the flags the new NOOPs clear are dead)
                kind = "holds" if side == 0 else "fails"
                side_hist.setdefault(p, {}); side_hist[p][kind] = side_hist[p].get(kind, 0) + 1
                if kind == "fails" and d in differing:
                    side_hist[p]["fails-with-behavioural-difference-reported"] = side_hist[p].get("fails-with-behavioural-difference-reported", 0) + 1
                elif kind == "fails":
                    what = ("put a NOOP (clears $of/$err) in place of a jump where the flags are live, or the table is malformed"
                            if PASS[p] == 1 else "was applied to a program whose use/def table does not meet the precondition of its preservation theorem")
                    ctx.violation("side-%s-%s-%s" % (p, os.path.basename(d), fn), rep,
                                  "pass %s on %s/%s %s" % (p, os.path.basename(d), fn, what), no_input=True)
    elif not infra:
        ctx.violation("no-dumps", {"status": status}, "no asm_pass dumps were produced", no_input=True)
    ctx.coverage.update({
        "checker_cmd": "make -C coq C07/Props.vo (coqc 8.16.1) + coqc vm_compute of C07/Judge.v over the asm_pass dumps",
        "trusted_base": ["Coq 8.16.1 kernel + vm_compute", "sway-core hooks (asm_pass dumps, VERIF_ASM_NOOPT switch)", "props/c08_asm.py (op text -> Coq term)",
                         "harness swayrun + forc-test + fuel-vm", "use/def/side-effect table taken from the compiler"],
        "programs": len(pkgs), "package_status_opt/noopt": status, "infrastructure_failures": infra,
        "package_kinds": {k: list(kinds_of.values()).count(k) for k in set(kinds_of.values())},
        "tests_compared": ntests, "behaviour_differences": ndiff,
        "pass_pairs_in_dumps": npairs, "pass_pairs_distinct_judged": len(work), "pass_pairs_skipped_budget": skipped, "ops_judged": total_ops,
        "evaluations": ntests + len(work), "distinct_nontrivial": len(work),
        "rule": "pass applications distinct by (pass, enter op texts, exit op texts), non-empty functions only; tests compared by (passed, state, receipts without gas/pc/ptr)",
        "disagreements_checked": ntests + len(work),
        "model_vs_real": {p: {("equal" if c == 0 else "code%d" % c): n for c, n in h.items()} for p, h in hist.items()},
        "side_conditions": side_hist, "constant_propagate_validator": cp_hist, "samples": samples,
        "explanation": "Proved for all programs: deletion simulation under a decidable side condition; remove_redundant_ops/dce/simplify_cfg are deletions (side condition checked on every real input of the pass); round-driver soundness. "
                       "remove_sequential_jumps and remove_redundant_moves: modelled and compared exactly, preservation not proved. "
                       "constant_propagate and const_indexing_aggregates: only the behavioural on/off comparison.",
    })
    ctx.assumptions += ["side-effect-free ops (has_side_effect = false) do not trap: a deleted dead ADD/DIV that would have panicked is not counted as a behaviour change",
                        "instruction semantics reads only use_registers and writes only def/def_const registers; RVRT stops; calls do not read $of/$err",
                        "that dce/simplify_cfg/remove_redundant_ops always produce deletions satisfying the side condition is checked per run, not proved",
                        "MCP/MCPI with zero length removed by remove_redundant_ops are outside the proved fragment (memory ops)"]
