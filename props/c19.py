"""C19 — formatting preserves program meaning and comments.
The formatter (≈8 kLOC of per-node printers) is not modelled; the property is decided per input on
the REAL formatter (harness bin c19: swayfmt::Formatter::format, default config): the formatted text
must lex and parse, its significant token sequence must equal the input's after the documented
cosmetic normalisation (tok_equiv, C19/Model.v `normalize`), and every comment text of the input must
occur in the output's comments in order (comments_embedded; comments_subseq is the strict form).  The relations are defined on the C16 lexer model's token
streams; their algebra and the soundness of the boolean decision are proved (coq/C19/Props.v); the
verdict per case is computed in Coq (C19/Judge.v) from the real lexer's streams of both texts."""
import os, hashlib, re
from vlib import coq, rust
from vlib.core import NCPU, REPO, ROOT
from props.c16 import sw_files

CODES = {0: "preserved", 1: "not-applicable", 2: "output-does-not-parse", 3: "tokens-differ", 4: "comment-lost",
         5: "formatter-panic", 6: "input-does-not-lex", 7: "preserved-comments-merged"}
SIZE_CAP = 60000   # bytes; larger files are skipped (coqc literal parsing time)


def boundaries(text):
    """positions right after ; { } , ( ) that are outside strings, chars and comments"""
    out, i, n = [], 0, len(text)
    while i < n:
        c = text[i]
        if c == '"':
            i += 1
            while i < n and text[i] != '"':
                i += 2 if text[i] == "\\" else 1
            i += 1; continue
        if c == "'":
            j = i + 1
            if j < n and text[j] == "\\": j += 1
            j += 1
            while j < n and text[j] != "'" and j - i < 12: j += 1
            i = j + 1; continue
        if text.startswith("//", i):
            while i < n and text[i] != "\n": i += 1
            continue
        if text.startswith("/*", i):
            d, i = 1, i + 2
            while i < n and d:
                if text.startswith("/*", i): d += 1; i += 2
                elif text.startswith("*/", i): d -= 1; i += 2
                else: i += 1
            continue
        if c in ";{},()":
            out.append(i + 1)
        i += 1
    return out


def with_comments(text, every, offset):
    """deterministic variant: a comment after every `every`-th boundary, alternately line and block"""
    bs = boundaries(text)
    pieces, last, k = [], 0, 0
    for idx, p in enumerate(bs):
        if idx % every != offset % every: continue
        pieces.append(text[last:p])
        pieces.append(" // c%d\n" % k if k % 2 == 0 else " /* c%d */ " % k)
        last, k = p, k + 1
    pieces.append(text[last:])
    return "".join(pieces), k


def key_of(b):
    return "sha_" + hashlib.sha256(b).hexdigest()[:20]


def run_harness(binp, inputs):
    inp = "".join((b.hex() or "-") + "\n" for b in inputs)
    rc, out = rust.run(binp, input=inp, timeout=2400)
    lines = out.split("\n")
    if rc != 0 or not lines or lines[0] != "ascii-ok":
        raise RuntimeError("harness c19 failed rc=%s: %s" % (rc, out[-1500:]))
    rows = [l.split("\t") for l in lines[1:] if l]
    if len(rows) != len(inputs) or any(len(r) != 11 for r in rows):
        raise RuntimeError("harness c19: %d result lines for %d inputs" % (len(rows), len(inputs)))
    return rows


def run(ctx):
    ctx.level = "other"
    ok, out = coq.check_props(ctx, "C19", extra_targets=["C19/Judge.vo"])
    if not ok:
        ctx.log(out[-3000:])
    binp, bout = rust.build("c19")
    if binp is None:
        ctx.violation("harness-build", {"log": bout[-4000:]}, "harness c19 does not build against /repo", no_input=True)
        return
    rng = ctx.rng
    files = []
    for f in sw_files():
        try:
            b = open(f, "rb").read(); b.decode("utf-8")
        except (OSError, UnicodeDecodeError):
            continue
        if len(b) <= SIZE_CAP:
            files.append((os.path.relpath(f, REPO), b))
    only = os.environ.get("C19_ONLY")      # debugging aid: comma-separated path substrings
    if only:
        files = [x for x in files if any(o in x[0] for o in only.split(","))]
    elif ctx.quick:
        files = rng.sample(files, min(len(files), 450))
    cases = []   # (origin, variant, bytes)
    for ln in open(os.path.join(ROOT, "corpus", "C19", "regress.txt"), encoding="utf-8"):
        ln = ln.split("#")[0].strip()
        if ln:
            cases.append(("corpus", "base", bytes.fromhex(ln)))
    ncorpus = len(cases)
    ncomments = 0
    for rel, b in files:
        t = b.decode()
        cases.append((rel, "base", b))
        v, k = with_comments(t, 5, 2)
        if k:
            cases.append((rel, "comments5", v.encode())); ncomments += k
        if not ctx.quick:
            v, k = with_comments(t, 3, 1)
            if k:
                cases.append((rel, "comments3", v.encode())); ncomments += k
    try:
        rows = run_harness(binp, [b for _, _, b in cases])
    except RuntimeError as e:
        ctx.violation("harness-run", {"log": str(e)[-3000:]}, "harness c19 failed to run", no_input=True)
        return
    ctx.log("harness: %d inputs (%d corpus, %d files)" % (len(cases), ncorpus, len(files)))
    stc = {"fmt-ok": 0, "fmt-err": 1, "fmt-panic": 2}
    items = []
    for (origin, var, b), r in zip(cases, rows):
        st = stc[r[0].split(" ")[0]]
        if st == 0:
            term = "(0, %s, %s, %s, %s, %s, %s, %s)" % (r[2], r[3], r[5], r[6], r[7], r[9], r[10])
        else:
            term = "(%d, %s, %s, [], XLexPanic, 0, %s, %s)" % (st, r[2], r[3], r[9], r[10])
        items.append((len(b) + 50, term))
    nsh = NCPU
    order = sorted(range(len(items)), key=lambda i: -items[i][0])
    load, assign = [0] * nsh, [[] for _ in range(nsh)]
    for i in order:
        k = load.index(min(load)); load[k] += items[i][0]; assign[k].append(i)
    shards = []
    for k in range(nsh):
        defs = "\n".join("Definition c%d : case := %s." % (j, items[i][1]) for j, i in enumerate(assign[k]))
        shards.append("%s\nEval vm_compute in (judge_all [%s])." % (defs, ";".join("c%d" % j for j in range(len(assign[k])))))
    try:
        res = coq.run_cases(ctx, "c19", "From Coq Require Import Uint63.\nFrom SwayV Require Import Base.Util C16.Model C16.Judge C19.Model C19.Spec C19.Comments C19.Judge.\nOpen Scope uint63_scope.", shards, timeout=2400)
    except RuntimeError as e:
        ctx.violation("judge-eval", {"log": str(e)[-3000:]}, "C19 judge could not be evaluated", no_input=True)
        return
    codes = [None] * len(cases)
    for k in range(nsh):
        got = res[k][0] if res[k] else []
        if len(got) != len(assign[k]):
            ctx.violation("judge-eval", {"shard": k}, "C19 judge returned a wrong number of results", no_input=True)
            return
        for i, c in zip(assign[k], got):
            codes[i] = (int(c[0]), int(c[1]), int(c[2]), int(c[3]))
    hist, per_variant = {}, {}
    cmh, cmbad = {}, []
    CM = {0: "equal-wellformed", 1: "differ", 2: "equal-not-wellformed", 3: "no-map"}
    auh, aubad = {}, []
    for (origin, var, b), r, (c, idx, cmc, auc) in zip(cases, rows, codes):
        auh[auc] = auh.get(auc, 0) + 1
        if auc == 1 and len(aubad) < 5:
            aubad.append((key_of(b), {"file": origin, "variant": var, "input_hex": b.hex()[:6000]}))
        cmh[CM[cmc]] = cmh.get(CM[cmc], 0) + 1
        if cmc in (1, 2) and len(cmbad) < 5:
            cmbad.append((key_of(b), {"file": origin, "variant": var, "input_hex": b.hex()[:6000], "real_cmap": r[9][:1000], "code": CM[cmc]}))
        hist[CODES[c]] = hist.get(CODES[c], 0) + 1
        per_variant.setdefault(var, {}).setdefault(CODES[c], 0)
        per_variant[var][CODES[c]] += 1
        if c in (2, 3, 4, 6):
            outb = bytes.fromhex(r[8]) if r[8] not in ("-", "") else b""
            ctx.violation(key_of(b), {"file": origin, "variant": var, "input_hex": b.hex() if len(b) < 6000 else None,
                                      "formatted": outb.decode("utf-8", "replace")[:3000], "first_diff_token_index": idx},
                          "%s variant=%s: %s" % (origin, var, CODES[c]))
    # ---- automaton correspondence on lexer mutants and token soups (harness c16 gives the real streams)
    from props import c16 as pc16
    bin16, _ = rust.build("c16")
    nmutants = 1000 if ctx.quick else 20000
    mhist = {}
    if bin16 is None:
        ctx.violation("harness-build", {}, "harness c16 (used for the automaton correspondence) does not build", no_input=True)
    else:
        strs = [b.decode() for _, b in files if 0 < len(b) <= 6000] or ["fn main() {}"]
        mcases = []
        for ln in open(os.path.join(ROOT, "corpus", "C16", "regress.txt"), encoding="utf-8"):
            ln = ln.split("#")[0].strip()
            if ln: mcases.append(b"" if ln == "-" else bytes.fromhex(ln))
        for _ in range(nmutants):
            if rng.random() < 0.25:
                mcases.append(pc16.sanitize(pc16.soup(rng)))
            else:
                base = pc16.window(rng, rng.choice(strs), rng.choice([60, 200, 500]))
                mcases.append(pc16.sanitize(pc16.mutate(rng, base, [pc16.window(rng, rng.choice(strs), 300)])[1]))
        try:
            mrows = pc16.run_harness(bin16, mcases)
            mshards = []
            for k in range(NCPU):
                ids = list(range(k, len(mcases), NCPU))
                defs = "\n".join("Definition c%d : acase := (%s, %s, %s)." % (j, mrows[i][1], mrows[i][2], mrows[i][3]) for j, i in enumerate(ids))
                mshards.append("%s\nEval vm_compute in (auto_judge_all [%s])." % (defs, ";".join("c%d" % j for j in range(len(ids)))))
            mres = coq.run_cases(ctx, "c19auto", "From Coq Require Import Uint63.\nFrom SwayV Require Import Base.Util C16.Model C16.Judge C19.Model C19.Spec C19.Comments C19.Auto C19.Judge.\nOpen Scope uint63_scope.", mshards, timeout=2400)
            for k in range(NCPU):
                ids = list(range(k, len(mcases), NCPU))
                for i, c in zip(ids, mres[k][0] if mres[k] else []):
                    mhist[int(c)] = mhist.get(int(c), 0) + 1
                    if int(c) == 1 and len(aubad) < 5:
                        aubad.append((key_of(mcases[i]), {"file": "mutant", "variant": "-", "input_hex": mcases[i].hex()[:6000]}))
        except RuntimeError as e:
            ctx.violation("auto-eval", {"log": str(e)[-2000:]}, "automaton correspondence could not be evaluated", no_input=True)
    for key, rep in aubad:
        ctx.violation(key, dict(rep, correspondence="C19.corr/auto_sig_exact"),
                      "auto_sig (position-free automaton form of the lexer model) differs from the significant tokens of the real lexer's stream: C19_tok_equiv_whitespace_irrelevant no longer tied to the code", no_input=True)
    for key, rep in cmbad:
        ctx.violation(key, dict(rep, correspondence="C19.corr/comment_map_exact"),
                      "the real CommentMap::from_src differs from the model (comments of the lexed stream in source order) or is not well-formed: C19_comments_partition no longer tied to the code", no_input=True)
    if not ok:
        ctx.violation("proof", {"theorems": [o for o in ctx.obligations if not o[1]], "log": out[-2000:]}, "C19 proofs do not check", no_input=True)
    ctx.coverage.update({
        "explanation": "The formatter is not modelled (level other/partial). Proved in Coq: tok_equiv is an equivalence, comments_subseq a preorder that preserves the relative order of comments, the boolean decision is sound for the property. Decided per input on the real formatter: the formatted text lexes and parses; tok_equiv of the real lexer's token streams (texts, literal values) of input and output after the normalisation N1-N4 of C19/Model.v (trailing commas before closers/`{`/`;`, sorted use-tree groups and braces of single imports, literals by value, parenthesised single types); every input comment's text occurs, in order, inside the output's comments (strict list-subsequence failures where all texts are still present, e.g. `{ // a` + `/* b */` merged into `// a /* b */`, are counted as preserved-comments-merged). Spacing (Joint/Alone) of punctuation is not compared. Inputs the formatter rejects (parse errors) or on which it panics have no output and are counted separately.",
        "evaluations": len(cases), "distinct_nontrivial": len({b for _, _, b in cases if len(b) >= 16}),
        "rule": "distinct by content, at least 16 bytes; repository .sw files (quick: 450 sampled; <= %d bytes) as they are and with comments inserted deterministically after every 5th (thorough: also every 3rd) `; { } , ( )` boundary outside strings/comments, alternately `// cN` and `/* cN */`; plus a regression corpus" % SIZE_CAP,
        "samples": [{"file": o, "variant": v, "verdict": CODES[c[0]]} for (o, v, _), c in list(zip(cases, codes))[ncorpus:ncorpus + 6]],
        "verdicts": hist, "comment_map_correspondence": cmh, "automaton_correspondence": {"on_inputs": {("equal" if k == 0 else "differ" if k == 1 else "lexer-panic"): v for k, v in auh.items()}, "on_mutants_and_soups": {("equal" if k == 0 else "differ" if k == 1 else "lexer-panic"): v for k, v in mhist.items()}}, "verdicts_per_variant": per_variant, "comments_inserted": ncomments,
        "checker_cmd": "make -C coq C19/Props.vo C19/Judge.vo + coqc vm_compute judge over harness output",
        "trusted_base": ["Coq kernel + vm_compute", "harness c19.rs/c16.rs", "props/c19.py (variants)", "the real lexer's streams are used for both texts (tied to the model by C16)"],
    })
    ctx.assumptions += ["formatter not modelled: per-input decision on generated inputs only",
                        "punctuation spacing (Joint/Alone) not compared; normalisation N1-N4 is coarser than strictly necessary"]
