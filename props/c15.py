"""C15 — builds are deterministic.
T-gen: inventory of iteration over hash-ordered containers in the code-generation path (tools/facts_c15.py),
checked against the committed classification coq/C15/sites.json; the order-insensitivity lemmas for the
classes are Coq theorems (coq/C15/Props.v). Decision on the implementation: every package is built
repeatedly in fresh processes (fresh std RandomState, different rayon pool sizes) and every artefact
compared byte for byte."""
import os, json, glob, shutil, concurrent.futures as cf
from vlib import coq, rust, sway
from vlib.core import ROOT, REPO, NCPU
from tools import facts_c15

def gen_pkg(rng, k):
    """a contract or script with several functions, storage, configurables, enums/structs: enough
    to exercise ABI type tables, data section, fn dedup and spilling."""
    nf = rng.randint(3, 8)
    fns, calls = [], []
    for i in range(nf):
        c = rng.randrange(1, 1000)
        op = rng.choice(["+", "*", "^", "|"])
        fns.append("fn f%d(a: u64, b: u64) -> u64 { let mut x = a %s %d; let mut i = 0; while i < %d { x = x %s b; i += 1; } x }" % (i, op, c, rng.randint(1, 4), rng.choice(["+", "^", "|"])))
        calls.append("f%d(x, %d)" % (i, rng.randrange(1, 99)))
    structs = "struct S%d { a: u64, b: bool, c: b256 }\nenum E%d { A: u64, B: (u64, bool), C: S%d }\n" % (k, k, k)
    many = " + ".join("v%d" % j for j in range(56))
    lets = "\n    ".join("let v%d = idf(%d) %s x;" % (j, rng.randrange(1, 50), rng.choice(["+", "^", "|"])) for j in range(56))
    if k % 2 == 0:
        return "main.sw", ("contract;\n%s\nstorage { s0: u64 = %d, s1: b256 = 0x%064x, s2: bool = true }\n"
            "configurable { C0: u64 = %d, C1: bool = false, C2: b256 = 0x%064x }\n"
            "abi A { fn m0(x: u64) -> u64; fn m1(s: S%d) -> E%d; #[storage(read)] fn m2() -> u64; fn big(x: u64) -> u64; }\n"
            "#[inline(never)]\nfn idf(x: u64) -> u64 { x }\n%s\n"
            "impl A for Contract {\n fn m0(x: u64) -> u64 { %s + C0 }\n fn m1(s: S%d) -> E%d { if s.b { E%d::A(s.a) } else { E%d::C(s) } }\n"
            " #[storage(read)] fn m2() -> u64 { storage.s0.read() }\n fn big(x: u64) -> u64 {\n    %s\n    %s\n }\n}\n"
            % (structs, rng.randrange(2**60), rng.randrange(2**255), rng.randrange(2**60), rng.randrange(2**255), k, k,
               "\n".join(fns), " + ".join(calls), k, k, k, k, lets, many))
    return "main.sw", ("script;\n%s\nconfigurable { C0: u64 = %d, C1: [u64; 3] = [1, 2, %d] }\n#[inline(never)]\nfn idf(x: u64) -> u64 { x }\n%s\n"
        "fn main(x: u64, s: S%d) -> E%d {\n    %s\n    let t = %s + C0 + C1[2] + %s;\n    log(t);\n    if t > 5 { E%d::B((t, s.b)) } else { E%d::C(s) }\n}\n"
        % (structs, rng.randrange(2**60), rng.randrange(100), "\n".join(fns), k, k, lets, " + ".join(calls), many, k, k))

def run(ctx):
    ctx.level = "other"
    ok, out = coq.check_props(ctx, "C15")
    if not ok:
        ctx.log(out[-3000:])
        ctx.violation("proof", {"theorems": [o for o in ctx.obligations if not o[1]], "log": out[-2000:]}, "C15 proofs do not check", no_input=True)
    # ---- T-gen inventory vs classification
    table = json.load(open(os.path.join(ROOT, "coq/C15/sites.json")))
    try:
        inv = facts_c15.inventory()
    except Exception as e:
        ctx.violation("tgen", {"error": repr(e)}, "C15.tgen: inventory scanner failed on the current source", no_input=True)
        return
    unclassified, bad_fx, classes = [], [], {}
    for s in inv:
        ent = table.get(s["id"])
        if ent is None:
            unclassified.append(s); continue
        classes[ent["class"]] = classes.get(ent["class"], 0) + 1
        if ent["class"] == "fx-deterministic" and "std" in s["kind"].split("+"):
            bad_fx.append(s)
        if ent.get("lemma") and not any(o[0] == ent["lemma"] and o[1] for o in ctx.obligations):
            ctx.violation("lemma-" + ent["lemma"], {"site": s}, "site relies on lemma %s which is not discharged" % ent["lemma"], no_input=True)
    # ---- decision on the implementation: repeated builds in fresh processes
    binp, bout = rust.build("c15")
    if binp is None:
        ctx.violation("harness-build", {"log": bout[-3000:]}, "harness c15 does not build", no_input=True)
        return
    base = os.path.join(ctx.work, "pkgs")
    dirs = []
    ngen = 3 if ctx.quick else 30
    for k in range(ngen):
        fn, src = gen_pkg(ctx.rng, k)
        dirs.append(sway.write_pkg(base, "c15g%02d" % k, {fn: src}, entry=fn))
    # functions with 38-75 simultaneously live values in several shapes (straight-line, loops): the
    # register allocator must spill and break ties between spill candidates (generator of C08)
    try:
        from props import c08 as C08
        for k in range(2 if ctx.quick else 8):
            d, _ = C08.gen_spill_pkg(ctx.rng, base, "c15sp%02d" % k, 3 if ctx.quick else 6)
            dirs.append(d)
    except Exception as e:
        ctx.log("spill packages not generated: %r" % (e,))
    # corpus: e2e packages that only need std by path
    corpus_root = os.path.join(REPO, "test/src/e2e_vm_tests/test_programs/should_pass/language")
    cands = sorted(glob.glob(os.path.join(corpus_root, "*", "Forc.toml")))
    ctx.rng.shuffle(cands)
    ncorp = 3 if ctx.quick else 60
    for toml in cands:
        if ncorp == 0: break
        t = open(toml).read()
        if "path = " not in t or t.count("path =") != 1 or "sway-lib-std" not in t.split("path =")[1].split("\n")[0] or "reduced_std" in t:
            continue
        src = os.path.dirname(toml)
        dst = os.path.join(base, "corp_" + os.path.basename(src))
        if os.path.exists(dst): shutil.rmtree(dst)
        shutil.copytree(src, dst, ignore=shutil.ignore_patterns("out", "Forc.lock", "*.json", "*.snap"))
        tt = open(os.path.join(dst, "Forc.toml")).read()
        import re
        tt = re.sub(r'std\s*=\s*\{[^}]*\}', 'std = { path = "/repo/sway-lib-std" }', tt)
        open(os.path.join(dst, "Forc.toml"), "w").write(tt)
        dirs.append(dst); ncorp -= 1
    reps = 3 if ctx.quick else 5
    def build_all(d):
        res = {}
        for prof in ("debug", "release"):
            runs = []
            for r in range(reps):
                rc, o = rust.run(binp, (["--release"] if prof == "release" else []) + ["--threads", str([1, 16, 4, 2, 8][r % 5]), d], timeout=900)
                runs.append([l for l in o.split("\n") if l.strip()])
            res[prof] = runs
        return d, res
    with cf.ThreadPoolExecutor(max_workers=max(2, NCPU // 2)) as ex:
        results = list(ex.map(build_all, dirs))
    built = skipped = compared = 0
    samples = []
    for d, res in results:
        for prof, runs in res.items():
            first = runs[0]
            if not first or not first[0].startswith("status ok"):
                if first and first[0].startswith("status panic"):
                    ctx.violation("panic-" + os.path.basename(d), {"package": d, "profile": prof, "out": first}, "compiler panicked while building %s" % d, no_input=True)
                skipped += 1; continue
            built += 1
            for r, other in enumerate(runs[1:], 1):
                compared += 1
                if other != first:
                    diff = [(a, b) for a, b in zip(first, other) if a != b][:5]
                    ctx.violation("nondet-%s-%s" % (os.path.basename(d), prof),
                                  {"package": d, "profile": prof, "run0": first, "run%d" % r: other, "diff": diff,
                                   "source": {f: open(os.path.join(d, "src", f)).read()[:6000] for f in os.listdir(os.path.join(d, "src"))[:3]}},
                                  "two builds of %s (%s) in separate processes differ: %s" % (os.path.basename(d), prof, diff[:2]))
                    break
            if len(samples) < 3: samples.append({"package": os.path.basename(d), "profile": prof, "artefacts": first[1:4]})
    # unclassified or mis-classified sites: the proof side no longer covers the code
    for s in unclassified[:10]:
        ctx.violation("site-" + s["id"], {"site": s, "obligation": "C15.tgen/site-classified"},
                      "unclassified iteration over a hash-ordered container in the codegen path: %s:%d %s (repeated builds found no difference)" % (s["file"], s["line"], s["text"][:120]),
                      no_input=True)
    for s in bad_fx[:10]:
        ctx.violation("site-" + s["id"] + "-std", {"site": s}, "site classified fx-deterministic now iterates a std (randomly seeded) container", no_input=True)
    ctx.coverage.update({
        "explanation": "Partial: theorems cover the order-sensitive-looking iteration sites over hash containers (sorted / max_by with a total order / set-level accumulation are permutation-invariant; spill slots distinct), not the compiler. Every inventoried site must be classified in coq/C15/sites.json; the property itself is decided per package by byte comparison of repeated builds in fresh processes.",
        "evaluations": compared, "distinct_nontrivial": built,
        "rule": "packages = generated contracts/scripts (functions incl. near-duplicates, >48 live values to force spilling, storage, configurables, structs/enums in the ABI) + e2e should_pass/language packages depending only on std; each built %d times per profile (debug, release) in separate processes with rayon pools of 1/16/4 threads; non-trivial = built successfully; evaluations = pairwise comparisons of artefact digests (bytecode, ABI JSON, storage slots JSON, files on disk)" % reps,
        "samples": samples, "packages": len(dirs), "skipped_build_errors": skipped,
        "inventory_sites": len(inv), "site_classes": classes, "unclassified_sites": [s["id"] for s in unclassified],
    })
    ctx.assumptions += ["FxHasher has no per-process seed and arena indices are assigned deterministically (class fx-deterministic)",
                        "the inventory scanner is heuristic (source-level, no type information); sites it misses are covered only by the repeated builds",
                        "concrete_type_id is an injective function of type_field (site 50f4e784d95e)"]
