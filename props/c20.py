"""C20 — Forc.lock round-trips the resolved package graph.
Theorems: coq/C20/Props.v.  Run: real `forc_pkg::Graph`s -> `Lock::from_graph` -> TOML text ->
`Lock::from_path` -> `to_graph`; the Coq judge (C20/Judge.v) compares the written lock and the
graph read back with the model, decides well-formedness (Spec.wf_graph) and decides the property
(graph read back ~ original graph) itself."""
import json, hashlib, re
from vlib import coq, rust
from vlib.core import NCPU
from props import c21 as base

HEADER = ("From SwayV Require Import Base.Util C21.Str C21.Model C21.Orig C21.Spec C21.Judge C20.Model C20.Spec C20.Judge.\n"
          "Open Scope N_scope.")
NAMES = ["std", "core", "foo_bar", "my-lib", "x1", "sway_libs", "Abc", "token-abi", "lib_a", "Z9"]
URLS = ["https://github.com/FuelLabs/sway", "https://github.com/FuelLabs/sway-libs", "http://a.com/r.git",
        "ssh://git@github.com/x/y.git", "https://gitlab.com/g/p"]
CID0 = ["QmdMgs46mWz2tWmJa9qvqLMvZzLQ8WjAyUEzXkLqZjXYZw", "QmYwAPJzv5CZsnA625s3Xf2nemtYgPpHdWEz79ojWnPbdG"]
CID1 = "bafybeigdyrzt5sfp7udm7hu76uh7y26nf3efuylqabf3oclgtqy55fbzdi"
VERS = ["0.1.0", "1.2.3", "0.66.4", "1.2.3-rc.1+build5", "10.20.30"]
# classes of graphs outside wf_graph.  domain=True: a resolved graph of a real project can look like this
CLASSES = {
    "git-ref-hash": True, "git-ref-paren": True, "git-url-query": True, "git-rev-not-commit": True,
    "reg-cid-v1": True, "reg-namespace-sep": True, "depname-rpar": True,
    "pkgname-invalid": False, "dup-package": False,
}


def hx(s): return s.encode().hex()


def gen_src(rng, kind=None):
    k = kind or rng.choice(["member", "path", "git", "git", "ipfs", "reg", "reg"])
    if k == "member": return {"t": "member"}
    if k == "path": return {"t": "path", "root": "%016X" % rng.getrandbits(rng.choice([8, 64, 64]))}
    if k == "git":
        commit = base.rhex(rng, 40)
        rk = rng.choice("BTRD")
        r = {"B": rng.choice(["master", "main", "feat/x", "release-1.0", "é"]), "T": rng.choice(["v0.1.0", "v1", "rc_2"]),
             "R": commit, "D": ""}[rk]
        return {"t": "git", "url": hx(rng.choice(URLS)), "rk": rk, "r": hx(r), "commit": hx(commit)}
    if k == "ipfs": return {"t": "ipfs", "cid": hx(rng.choice(CID0 + [CID1]))}
    ns = rng.choice([None, None, "fuel", "my-org"])
    return {"t": "reg", "name": hx(rng.choice(NAMES)), "ver": hx(rng.choice(VERS)), "cid": hx(rng.choice(CID0)),
            "ns": None if ns is None else hx(ns)}


def gen_graph(rng):
    n = rng.randint(1, 6)
    nodes, seen = [], set()
    pool = rng.sample(NAMES, rng.randint(1, min(n, 4)))          # few names: same-named packages are common
    for i in range(n):
        for _ in range(20):
            nm = rng.choice(pool)
            src = gen_src(rng, "member" if i == 0 and rng.random() < 0.7 else None)
            key = (nm, json.dumps(src, sort_keys=True))
            if key not in seen:
                seen.add(key); nodes.append({"name": hx(nm), "src": src}); break
    n = len(nodes)
    edges, pairs = [], set()
    for _ in range(rng.choice([0, 1, 2, 3, 5, 8])):
        a, b = rng.randrange(n), rng.randrange(n)
        if (a, b) in pairs: continue
        pairs.add((a, b))
        tname = bytes.fromhex(nodes[b]["name"]).decode()
        name = tname if rng.random() < 0.6 else rng.choice(["dep", "std2", "my_dep", "x-y", tname + "2", "é"])
        if rng.random() < 0.4:
            salt = rng.choice(["0" * 64, base.rhex(rng, 64), base.rhex(rng, 64), "0" * 63 + "1", "f" * 64])
            edges.append([a, b, hx(name), "C", salt])
        else:
            edges.append([a, b, hx(name), "L", ""])
    return {"nodes": nodes, "edges": edges}


def adversarial(rng, cls):
    g = gen_graph(rng)
    nodes = g["nodes"]
    def some_git():
        commit = base.rhex(rng, 40)
        return {"t": "git", "url": hx(URLS[0]), "rk": "B", "r": hx("master"), "commit": hx(commit)}
    i = rng.randrange(len(nodes))
    if cls == "git-ref-hash":
        s = some_git(); s["rk"] = rng.choice("BT"); s["r"] = hx(rng.choice(["a#b", "fix#12", "#", "x#" + base.rhex(rng, 40)])); nodes[i]["src"] = s
    elif cls == "git-ref-paren":
        s = some_git(); s["r"] = hx(rng.choice(["feat(x)", "a(b", "("]))
        nm = nodes[i]["name"]; nodes[i]["src"] = s
        nodes.append({"name": nm, "src": some_git()})                      # same name: disambiguation needed
        g["edges"].append([0, i, nm, "L", ""]) if all(e[:2] != [0, i] for e in g["edges"]) else None
    elif cls == "git-url-query":
        s = some_git(); s["url"] = hx(rng.choice(["https://h.com/r?x=1", "https://h.com/a?b"])); nodes[i]["src"] = s
    elif cls == "git-rev-not-commit":
        s = some_git(); s["rk"] = "R"; s["r"] = hx(rng.choice(["abc1234", "refs/pull/1/head", base.rhex(rng, 40)])); nodes[i]["src"] = s
    elif cls == "reg-cid-v1":
        nodes[i]["src"] = {"t": "reg", "name": hx("std"), "ver": hx("0.1.0"), "cid": hx(CID1), "ns": None}
    elif cls == "reg-namespace-sep":
        nodes[i]["src"] = {"t": "reg", "name": hx("std"), "ver": hx("0.1.0"), "cid": hx(CID0[0]), "ns": hx(rng.choice(["a!b", "a#b", "x!"]))}
    elif cls == "depname-rpar":
        if not g["edges"]: g["edges"].append([0, len(nodes) - 1, hx("d"), "L", ""])
        rng.choice(g["edges"])[2] = hx(rng.choice(["a)b", ")", "x) y", "(a)"]))
    elif cls == "pkgname-invalid":
        nodes[i]["name"] = hx(rng.choice(["a b", "a)b", "(a", "a(b", " a", "a "]))
    elif cls == "dup-package":
        nodes.append(json.loads(json.dumps(nodes[i])))
    return g


CODES = {0: "wf-roundtrip", 10: "nonwf-roundtrip", 2: "wf-NO-roundtrip", 3: "nonwf-no-roundtrip", 1: "model-differs",
         5: "panic", 9: "oracle-miss"}
REASON = {0: "wf", 20: "package-name", 30: "source", 21: "duplicate-package", 22: "edge-endpoint", 40: "dependency-name",
          41: "salt-range", 23: "parallel-edges", 99: "-"}
NAME_RE = re.compile(rb"^[A-Za-z0-9_-]+$")


def run(ctx):
    ctx.level = "proof"
    ok, out = coq.check_props(ctx, "C20", extra_targets=["C20/Judge.vo"])
    ctx.log("proofs checked: %s" % ok)
    if not ok:
        ctx.log(out[-3000:])
        ctx.violation("proof", {"theorems": [o for o in ctx.obligations if not o[1]], "log": out[-2000:]},
                      "C20 proofs do not check", no_input=True)
    binp, bout = rust.build("c20")
    binq = binp                      # the c20 binary also answers the oracle queries
    if binp is None:
        ctx.violation("harness-build", {"log": bout[-4000:]}, "harness c20 does not build against /repo", no_input=True)
        return
    ctx.log("harness built")
    rng = ctx.rng
    n_wf = 300 if ctx.quick else 6000
    n_adv = 8 if ctx.quick else 600
    cases = []
    # corpus: the refutation witnesses of coq/C20/Props.v first
    for cls in CLASSES:
        cases.append((cls, adversarial(__import__("random").Random(7), cls)))
    for _ in range(n_wf): cases.append(("wf", gen_graph(rng)))
    for cls in CLASSES:
        for _ in range(n_adv): cases.append((cls, adversarial(rng, cls)))
    rc, outp = rust.run(binp, input="".join(json.dumps(g) + "\n" for _, g in cases))
    lines = [l for l in outp.split("\n") if l.strip()]
    if rc != 0 or len(lines) != len(cases):
        ctx.violation("harness-run", {"rc": rc, "out": outp[-2000:]}, "harness c20 failed to run", no_input=True)
        return
    results = [json.loads(l) for l in lines]
    ctx.log("implementation run on %d graphs" % len(cases))
    stats = {}
    def st(k): stats[k] = stats.get(k, 0) + 1
    sources, judged = [], []
    for ci, ((cls, g), r) in enumerate(zip(cases, results)):
        if r.get("build") != "ok": st("skipped-unbuildable"); continue
        rep = {"class": cls, "case": g, "lock_text": bytes.fromhex(r.get("text", "")).decode("utf-8", "replace"), "msg": r.get("msg")}
        if r.get("write") != "ok" or r.get("load") == "panic":
            st("write-or-load-" + str(r.get("write")) + "/" + str(r.get("load")))
            ctx.violation("write:" + hashlib.sha1(json.dumps(g).encode()).hexdigest()[:12], rep,
                          "writing or loading the lock failed: write=%s load=%s %s" % (r.get("write"), r.get("load"), r.get("msg")))
            continue
        if r["load"] == "err":
            # the text forc wrote is not a loadable lock: the round trip fails before to_graph
            st("load-err"); judged.append((ci, None)); continue
        st("graph-" + r["graph"])
        sources += [bytes.fromhex(p["source"]) for p in r["lock"]]
        judged.append((ci, r))
    try:
        qs, verd = base.oracle_tables(ctx, binq, sources, "c20q")
    except RuntimeError as e:
        ctx.violation("oracle-eval", {"log": str(e)[-3000:]}, "C20 oracle queries could not be evaluated", no_input=True)
        return
    ctx.log("oracle verdicts: %d" % len(verd))
    items, idx = [], []
    for ci, r in judged:
        if r is None: continue
        impl = "(IOk %s)" % base.coq_graph(r["g2"]) if r["graph"] == "ok" else ("IErr" if r["graph"] == "err" else "IPanic")
        srcs = [bytes.fromhex(p["source"]) for p in r["lock"]]
        items.append("C20case %s %s %s %s" % (base.coq_table(qs, verd, srcs), base.coq_graph(r["g1"]), base.coq_lock(r["lock"]), impl))
        idx.append(ci)
    shards = ["Definition cs : list case20 := [\n%s\n].\nEval vm_compute in (judge20_all cs)." % ";\n".join(ch) for ch in base.shard(items, max(NCPU, (len(items) + 199) // 200))]
    try:
        res = coq.run_cases(ctx, "c20", HEADER, shards)
    except RuntimeError as e:
        ctx.violation("model-eval", {"log": str(e)[-3000:]}, "C20 model/judge could not be evaluated", no_input=True)
        return
    ctx.log("judged %d cases in Coq" % len(items))
    verdicts = [c for sh_ in res for c in sh_[0]]
    assert len(verdicts) == len(items), (len(verdicts), len(items))
    hist, by_class, corr = {}, {}, []
    names_tie = {"validated": 0, "validated_not_wf_name": 0}
    def classify(ci, code, reason, r):
        cls, g = cases[ci]
        hist[CODES.get(code, str(code))] = hist.get(CODES.get(code, str(code)), 0) + 1
        bc = by_class.setdefault(cls, {}); k = "%s/%s" % (CODES.get(code, code), REASON.get(reason, reason)); bc[k] = bc.get(k, 0) + 1
        rep = {"class": cls, "case": g, "reason": REASON.get(reason, reason), "impl": None if r is None else r.get("graph"),
               "msg": None if r is None else r.get("msg"),
               "lock_text": "" if r is None else bytes.fromhex(r.get("text", "")).decode("utf-8", "replace")}
        h = hashlib.sha1(json.dumps(g, sort_keys=True).encode()).hexdigest()[:12]
        if code == 5:
            ctx.violation("panic:" + h, rep, "lock round trip panicked: %s" % rep["msg"])
        elif code == 2:
            ctx.violation("wf-roundtrip:" + h, rep, "a graph inside wf_graph does not round-trip through Forc.lock (theorem C20 contradicts the code)")
        elif code == 3:
            if cls == "wf":
                ctx.violation("unclassified-%s:%s" % (REASON.get(reason, reason), h), rep,
                              "a generated ordinary graph is outside wf_graph (%s) and does not round-trip" % REASON.get(reason, reason))
            elif CLASSES[cls]:
                ctx.violation(cls, rep, "resolved graph of class %s does not round-trip through Forc.lock (%s)" % (cls, rep["msg"]))
        elif code in (1, 9):
            corr.append((code, rep, h))
    for (ci, r0) in judged:
        if r0 is None:
            classify(ci, 3, 99, None)
    for v, ci in zip(verdicts, idx):
        r = results[ci]
        classify(ci, v[0], v[1], r)
        for nd, okn in zip(r["g1"]["nodes"], r["names_ok"]):
            if okn:
                names_tie["validated"] += 1
                if not NAME_RE.match(bytes.fromhex(nd["name"])): names_tie["validated_not_wf_name"] += 1
    for code, rep, h in corr[:5]:
        ctx.violation("corr-" + h, dict(rep, correspondence="C20.corr/%s" % CODES.get(code, code)),
                      "model and implementation differ (%s); theorems C20_* no longer tied to the code" % CODES.get(code, code), no_input=True)
    if names_tie["validated_not_wf_name"]:
        ctx.violation("name-charset", names_tie, "forc_util::validate_project_name accepts a name outside wf_nameb's character set", no_input=True)
    distinct = len({json.dumps(cases[ci][1], sort_keys=True) for ci in idx if cases[ci][1]["edges"]})
    ctx.coverage.update({
        "checker_cmd": "make -C coq C20/Props.vo (coqc 8.16.1) + coqc vm_compute judge (C20/Judge.v) over harness output",
        "trusted_base": ["Coq 8.16.1 kernel + vm_compute", "harness/src/bin/c20.rs + c20_common.rs (graph construction, dumps)", "props/c20.py, props/c21.py (case text)",
                         "toml crate (serialisation and deserialisation of Forc.lock; exercised, not modelled)",
                         "gix_url / cid / semver Display and FromStr: Section variables in the theorems, measured verdicts in the run"],
        "evaluations": len(cases), "distinct_nontrivial": distinct,
        "rule": "distinct graphs with at least one dependency edge that were written, read back and judged in Coq",
        "samples": [{"class": cases[ci][0], "case": cases[ci][1]} for ci in idx[12:15]],
        "impl_outcomes": stats, "judgements": hist, "by_class": by_class, "oracle_queries": len(verd), "name_validation_tie": names_tie,
        "explanation": "Theorem C20_lock_roundtrip: for every graph inside Spec.wf_graph and every iteration order of the written package set, to_graph of the written lock is Ok and has the same packages and the same resolved edges (names, kinds, salts) up to node numbering; C20_source_roundtrip gives the per-kind syntactic conditions under which a source string reads back; Refute.v has one witness per excluded character. The run ties model to code both ways (written lock as a set, graph read back exactly), decides wf_graph and the property per case in Coq; classes outside wf_graph that real projects can produce are replayed on the code and are recorded findings.",
    })
    ctx.assumptions += ["model = code is established by exact comparison on the generated graphs only",
                        "external Display/FromStr laws (gix_url, cid, semver) are hypotheses of the theorems; on every generated source they are checked through wf_srcb"]
