"""C22 — build order respects dependencies.
Theorems: coq/C22/Props.v.  Correspondence: real forc_pkg::compilation_order vs the Coq model of
petgraph's toposort, judged inside Coq (C22/Judge.v) together with the proved oracles."""
from vlib import coq, rust
from vlib.core import NCPU

def gen_graph(rng, maxn, kind):
    n = rng.randint(1, maxn)
    edges, seen = [], set()
    dens = rng.choice([0.1, 0.25, 0.5, 0.9])
    perm = list(range(n)); rng.shuffle(perm)        # hidden topological order
    m = int(dens * n * (n - 1) / 2) + rng.randint(0, 2)
    for _ in range(m):
        i, j = rng.randrange(n), rng.randrange(n)
        if i == j: continue
        a, b = (perm[max(i, j)], perm[min(i, j)])    # a depends on b, b earlier in perm
        if (a, b) not in seen:
            seen.add((a, b)); edges.append((a, b))
    if kind == "cycle" and n >= 1:
        # inject a back edge / self loop / longer cycle
        c = rng.choice(["self", "back", "two"])
        if c == "self" or n == 1:
            a = rng.randrange(n); e = (a, a)
        elif c == "back" and edges:
            a, b = rng.choice(edges); e = (b, a)
        else:
            i, j = rng.sample(range(n), 2)
            e = (perm[min(i, j)], perm[max(i, j)])
        if e not in seen:
            seen.add(e); edges.insert(rng.randrange(len(edges) + 1), e)
    kinds = [rng.choice("LLLC") for _ in edges]
    return n, edges, kinds

def find_cycle(n, edges):
    adj = {}
    for a, b in edges: adj.setdefault(a, []).append(b)
    color, stack = {}, []
    def dfs(u):
        color[u] = 1; stack.append(u)
        for v in adj.get(u, []):
            if color.get(v, 0) == 1:
                return stack[stack.index(v):]
            if color.get(v, 0) == 0:
                r = dfs(v)
                if r: return r
        color[u] = 2; stack.pop(); return None
    import sys
    sys.setrecursionlimit(10000)
    for s in range(n):
        if color.get(s, 0) == 0:
            r = dfs(s)
            if r: return r
    return []

def coq_graph(n, edges):
    return "{| nnodes := %d; edges := [%s] |}" % (n, ";".join("(%d,%d)" % e for e in edges))

CODES = {0: "agree", 1: "corr-diff", 2: "invalid-order", 3: "acyclic-rejected", 4: "undecided-reject",
         5: "panic", 6: "model-fuel"}

def run(ctx):
    ctx.level = "proof"
    ok, out = coq.check_props(ctx, "C22", extra_targets=["C22/Judge.vo"])
    if not ok:
        ctx.log(out[-3000:])
    binp, bout = rust.build("c22")
    if binp is None:
        ctx.violation("harness-build", {"log": bout[-4000:]}, "harness c22 does not build against /repo", no_input=True)
        return
    ncases = 1500 if ctx.quick else 16000
    maxn = 12 if ctx.quick else 60
    cases = []
    # corpus first: fixed regression shapes
    corpus = [(1, [], []), (1, [(0, 0)], ["L"]), (2, [(0, 1), (1, 0)], ["L", "C"]), (3, [(0, 1), (1, 2), (2, 0)], ["L", "L", "L"]),
              (4, [(0, 1), (0, 2), (1, 3), (2, 3)], ["L", "C", "L", "L"]), (3, [(2, 1), (1, 0)], ["C", "C"])]
    cases.extend(corpus)
    while len(cases) < ncases:
        big = (not ctx.quick) and ctx.rng.random() < 0.02
        cases.append(gen_graph(ctx.rng, 120 if big else maxn, ctx.rng.choice(["dag", "dag", "cycle"])))
    inp = "\n".join("%d;%s" % (n, ",".join("%d-%d:%s" % (a, b, k) for (a, b), k in zip(es, ks))) for n, es, ks in cases) + "\n"
    rc, outp = rust.run(binp, input=inp)
    lines = [l for l in outp.split("\n") if l.strip()]
    if rc != 0 or len(lines) != len(cases):
        ctx.violation("harness-run", {"rc": rc, "out": outp[-2000:]}, "harness c22 failed to run", no_input=True)
        return
    items, stats = [], {"ok": 0, "err": 0, "panic": 0}
    for (n, es, ks), l in zip(cases, lines):
        if l.startswith("ok"):
            stats["ok"] += 1
            impl, cert = "IOk [%s]" % ";".join(l.split()[1:]), []
        elif l.startswith("err"):
            stats["err"] += 1
            impl, cert = "IErr", find_cycle(n, es)
        else:
            stats["panic"] += 1
            impl, cert = "IPanic", []
        items.append("(%s, %s, [%s])" % (coq_graph(n, es), impl, ";".join(map(str, cert))))
    nsh = max(1, len(items) // 250)
    shards = []
    per = (len(items) + nsh - 1) // nsh
    for k in range(nsh):
        chunk = items[k * per:(k + 1) * per]
        shards.append("Definition cs : list (graph * impl_res * list nat) := [\n%s\n].\nEval vm_compute in (judge_all cs)." % ";\n".join(chunk))
    try:
        res = coq.run_cases(ctx, "c22", "From SwayV Require Import Base.Util C22.Model C22.Spec C22.Judge.", shards, timeout=2400)
    except RuntimeError as e:
        ctx.violation("model-eval", {"log": str(e)[-3000:]}, "C22 model/judge could not be evaluated (correspondence C22.corr/toposort_exact not checked)", no_input=True)
        return
    codes = [c for sh_ in res for c in sh_[0]]
    assert len(codes) == len(cases), (len(codes), len(cases))
    hist = {}
    corr_diffs = []
    for idx, (c, case, l) in enumerate(zip(codes, cases, lines)):
        hist[CODES[c]] = hist.get(CODES[c], 0) + 1
        n, es, ks = case
        rep = {"n": n, "edges": es, "kinds": ks, "impl": l}
        key = "g%d_%s" % (n, "_".join("%d-%d" % e for e in es))[:80]
        if c in (2, 3, 5):
            ctx.violation(key, rep, "compilation_order: %s on graph n=%d edges=%s (impl: %s)" % (CODES[c], n, es, l))
        elif c in (1, 4, 6):
            corr_diffs.append((key, rep, CODES[c]))
    # correspondence differences where the oracle accepted the implementation: the model no longer
    # is the code, so the theorems no longer speak about it.
    for key, rep, what in corr_diffs[:5]:
        ctx.violation(key, dict(rep, correspondence="C22.corr/toposort_exact"),
                      "model and implementation differ (%s) although the oracle accepts the implementation's answer; theorem C22_order_valid no longer tied to the code" % what,
                      no_input=True)
    if not ok:
        ctx.violation("proof", {"theorems": [o for o in ctx.obligations if not o[1]], "log": out[-2000:]},
                      "C22 proofs do not check", no_input=True)
    distinct = len({(n, tuple(es)) for n, es, _ in cases if len(es) >= 2})
    ctx.coverage.update({
        "checker_cmd": "make -C coq C22/Props.vo  (coqc 8.16.1, full .vo build) + coqc vm_compute judge over harness output",
        "trusted_base": ["Coq 8.16.1 kernel + vm_compute", "harness/src/bin/c22.rs (graph construction, output printing)",
                         "props/c22.py (case text, cycle search used only as a certificate that Coq re-checks)",
                         "petgraph 0.6.5 toposort is modelled (C22/Model.v), tied by exact output comparison"],
        "evaluations": len(cases), "distinct_nontrivial": distinct,
        "rule": "random simple digraphs (hidden topological order; 1/3 with an injected self-loop, back edge or extra edge), n<=%d, library+contract edges; non-trivial = at least 2 edges; distinct by (n, edge list)" % maxn,
        "samples": [{"n": n, "edges": es, "impl": l} for (n, es, _), l in list(zip(cases, lines))[6:10]],
        "impl_outcomes": stats, "judgements": hist,
        "explanation": "Theorems (all well-formed graphs): an order returned by the model is a valid order; every acyclic graph gets a valid order; every cyclic graph gets the cycle error; default fuel always suffices; the boolean order oracle and the cycle-certificate checker are sound.",
    })
    ctx.assumptions += ["model = code is established by exact comparison on the generated graphs only"]
