"""C03 — every IR optimisation pass preserves program behaviour (partial).
Theorem: coq/C03/Props.v — alpha_eq (equality of function bodies modulo renaming of values) implies equal behaviour
for every interpretation of the instructions. Validation per run: every pair of functions that the real fn-dedup
pass merges is re-checked with the proved alpha_eq on exported bodies (translation validation).
All other passes: behaviour only — scripts are compiled from IR with the pass inserted at several positions of the
mandatory pipeline (and with random pass lists), through the real backend, run on fuel-vm, and must produce the
same final state and receipts as the baseline pipeline; the backend must accept every variant."""
import os, glob, collections
from vlib import coq, rust
from vlib.core import NCPU, ROOT, REPO
from props.c04 import corpus_files, short as short04
from props import c03_payload, c03_ccp

LOWER = ["lower-init-aggr"]
O0_MID = ["fn-dedup-debug", "inline", "globals-dce", "dce"]
DEMOTE = ["const-demotion", "arg-demotion", "ret-demotion", "misc-demotion"]
TAIL = ["arg_pointee_mutability_tagger", "memcpyopt", "dce", "simplify-cfg"]
BASE = LOWER + O0_MID + DEMOTE + TAIL
O1 = ("lower-init-aggr mem2reg fn-dedup-release inline arg_pointee_mutability_tagger simplify-cfg globals-dce dce inline "
      "arg_pointee_mutability_tagger ccp const-folding simplify-cfg cse const-folding simplify-cfg globals-dce dce fn-dedup-release "
      "const-demotion arg-demotion ret-demotion misc-demotion arg_pointee_mutability_tagger memcpyopt dce simplify-cfg "
      "memcpyprop_reverse sroa mem2reg dce").split()
OPT = ["mem2reg", "sroa", "inline", "const-folding", "ccp", "simplify-cfg", "globals-dce", "dce", "cse", "fn-dedup-release",
       "fn-dedup-debug", "memcpyopt", "memcpyprop_reverse", "arg_pointee_mutability_tagger"]


def short(f):
    if "/ccp/ccp_" in f: return "ccp/" + os.path.basename(f)
    if "/corpus/C03/ccp_ir/" in f: return "c03ccp/" + os.path.basename(f)
    if "/payload/pl_" in f: return "payload/" + os.path.basename(f)
    if "/corpus/C03/" in f: return "c03/" + os.path.basename(f)
    return short04(f)


def run_c03(binp, lines, work, tag):
    import concurrent.futures as cf
    d = os.path.join(work, "run"); os.makedirs(d, exist_ok=True)
    nproc = min(NCPU, max(1, len(lines) // 50))
    def one(k):
        outp = os.path.join(d, "%s_%d.out" % (tag, k))
        if os.path.exists(outp): os.remove(outp)
        rc, text = rust.run(binp, [outp], input="".join(l + "\n" for l in lines[k::nproc]), timeout=3000)
        if rc != 0 or not os.path.exists(outp):
            raise RuntimeError("harness c03 failed rc=%s: %s" % (rc, text[-1500:]))
        res, cur = {}, None
        for l in open(outp, errors="replace"):
            if l[0] == "C": cur = l[2:].strip(); res[cur] = []
            elif l[0] in "PNXQU": res[cur].append(l.rstrip("\n"))
        return res
    out = {}
    with cf.ThreadPoolExecutor(max_workers=nproc) as ex:
        for r in ex.map(one, range(nproc)): out.update(r)
    return out


def variants(rng, quick):
    """(name, pass list) — every optional pass alone at three positions, O1, demotions early/twice, random lists"""
    vs = [("O1", O1)]
    for x in OPT:
        vs.append(("%s@start" % x, LOWER + [x] + O0_MID + DEMOTE + TAIL))
        vs.append(("%s@mid" % x, LOWER + O0_MID + [x] + DEMOTE + TAIL))
        vs.append(("%s@end" % x, BASE + [x]))
    vs.append(("demote-early", LOWER + DEMOTE + O0_MID + DEMOTE + TAIL))
    vs.append(("demote-twice", LOWER + O0_MID + DEMOTE + DEMOTE + TAIL))
    # passes BEFORE inlining (function parameters are still unknown values there): ccp after the passes that create its
    # typical input (mem2reg, simplify-cfg unlinking empty blocks), and random neighbourhoods
    rest = O0_MID + DEMOTE + TAIL
    pre = ["mem2reg", "simplify-cfg", "dce", "cse", "const-folding", "sroa", "ccp"]
    for k, lst in enumerate([["ccp"], ["mem2reg", "ccp"], ["mem2reg", "simplify-cfg", "ccp"], ["simplify-cfg", "ccp", "simplify-cfg"],
                             ["mem2reg", "simplify-cfg", "ccp", "const-folding", "simplify-cfg", "dce"], ["mem2reg", "simplify-cfg", "cse", "ccp", "cse"]]):
        vs.append(("pre-inline%d" % k, LOWER + lst + rest))
    for k in range(4 if quick else 40):
        lst = [rng.choice(pre) for _ in range(rng.randint(0, 3))] + ["ccp"] + [rng.choice(pre) for _ in range(rng.randint(0, 2))]
        vs.append(("pre-inline-rand%d" % k, LOWER + lst + rest))
    for k in range(6 if quick else 60):
        mid = [rng.choice(OPT) for _ in range(rng.randint(2, 8))]
        end = [rng.choice(OPT) for _ in range(rng.randint(0, 3))]
        vs.append(("rand%d" % k, LOWER + O0_MID + mid + DEMOTE + TAIL + end))
    return vs


def run(ctx):
    ctx.level = "translation_validation"
    coq.build(["C03/Judge.vo"])
    ok, out = coq.check_props(ctx, "C03")
    proof_failed = None
    if not ok:
        ctx.log(out[-3000:])
        proof_failed = ("proof", {"theorems": [o for o in ctx.obligations if not o[1]], "log": out[-2000:]}, "C03 proofs do not check")
    binp, bout = rust.build("c03")
    if binp is None:
        ctx.violation("harness-build", {"log": bout[-4000:]}, "harness c03 does not build against /repo", no_input=True)
        return
    rng, quick = ctx.rng, ctx.quick
    # machinery failures (proofs, judge) are reported only after the behavioural runs had their chance to find a
    # failing input: (key, replay, text)
    deferred = [proof_failed] if proof_failed else []
    ir_tests, ir_gen = corpus_files()
    c03 = sorted(glob.glob(os.path.join(ROOT, "corpus/C03/ir/*.ir")))
    if len(c03) < 20:
        ctx.violation("corpus", {"c03": len(c03)}, "corpus/C03/ir not found", no_input=True); return

    # ------------------------------------------------------------ (1) fn-dedup: validate every merge
    lines, meta = [], {}
    prefixes = ["-", "mem2reg", "simplify-cfg,mem2reg,dce"]
    # systematic candidates: one module per kind of non-value payload, functions fa / fb (one payload differs) / fc (= fa)
    payload = [p for _, p in c03_payload.write_all(os.path.join(ctx.work, "payload"))]
    dedup_files = payload + (c03 + ir_gen + [f for f in ir_tests if "/fn_dedup/" in f] if quick else c03 + ir_gen + ir_tests)
    for f in dedup_files:
        for pre in (prefixes[:1] if ((quick and f in ir_gen) or f in payload) else prefixes):
            for dp in ("fn-dedup-release", "fn-dedup-debug"):
                i = "d%d" % len(meta); meta[i] = (f, pre, dp); lines.append("dedup\t%s\t%s\t%s\t%s" % (i, f, pre, dp))
    try:
        res = run_c03(binp, lines, ctx.work, "dedup")
    except RuntimeError as e:
        deferred.append(("harness-run", {"log": str(e)[-3000:]}, "harness c03 failed to run the dedup cases")); res = {}
    pairs, nstat = [], collections.Counter()
    for i, (f, pre, dp) in meta.items():
        for l in res.get(i, []):
            if l[0] == "P":
                _, old, new, rest = l.split(" ", 3)
                a, b = rest.split("\x01")
                pairs.append((f, pre, dp, old, new, a, b))
            elif l[0] == "N":
                p = l.split(" ")
                if p[1] in ("err", "panic"): nstat[p[1] + ":" + p[2].split(":")[0]] += 1
                else:
                    nstat["runs"] += 1
                    if int(p[4]) > 0:
                        ctx.violation("%s:%s,%s:removed-uncalled" % (short(f), pre, dp), {"ir_file": f, "prefix": pre, "pass": dp, "line": l},
                                      "%s removed %s function(s) that were not replaced at any call site" % (dp, p[4]))
    pl_stat = collections.Counter()
    for i, (f, pre, dp) in meta.items():
        if f not in payload: continue
        ls = res.get(i, [])
        nl = [l for l in ls if l[0] == "N"]
        if not nl or nl[0].split(" ")[1] in ("err", "panic"):
            pl_stat["INVALID-TEMPLATE"] += 1
            deferred.append(("payload-template:%s" % short(f), {"ir_file": f, "result": nl[:1]}, "payload candidate module %s is not accepted by the IR parser/verifier" % short(f)))
            continue
        ps_ = sorted(tuple(l.split(" ")[1:3]) for l in ls if l[0] == "P")
        if any("fb" in x for x in ps_): pl_stat["DIFFERENT-PAIR-MERGED"] += 1
        elif ps_: pl_stat["only-control-merged"] += 1
        else: pl_stat["nothing-merged"] += 1
    seen, uniq = set(), []
    for p in pairs:
        k = (p[5], p[6])
        if k not in seen: seen.add(k); uniq.append(p)
    nsh = min(NCPU, max(1, len(uniq) // 10))
    per = (len(uniq) + nsh - 1) // max(1, nsh)
    shards = ["Definition ps : list (fn * fn) := [\n%s\n].\nEval vm_compute in (judge_all ps)." %
              ";\n".join("(%s, %s)" % (p[5], p[6]) for p in uniq[k * per:(k + 1) * per]) for k in range(nsh) if uniq[k * per:(k + 1) * per]]
    codes = []
    if shards:
        try:
            jres = coq.run_cases(ctx, "c03", "From SwayV Require Import Base.Util C03.Model C03.Judge.\nOpen Scope N_scope.", shards)
        except RuntimeError as e:
            deferred.append(("model-eval", {"log": str(e)[-3000:]}, "C03 dedup judge could not be evaluated"))
            jres = []
        codes = [c for sh in jres for c in sh[0]]
        if len(codes) != len(uniq): codes = []
    acc = sum(1 for c in codes if c == 0)
    for p, c in zip(uniq, codes):
        if c != 0:
            key = "%s:%s,%s:%s=%s" % (short(p[0]), p[1], p[2], p[3], p[4])
            ctx.violation(key, {"ir_file": p[0], "prefix": p[1], "pass": p[2], "removed": p[3], "kept": p[4], "removed_body": p[5][:3000], "kept_body": p[6][:3000],
                                "module_text": open(p[0]).read()[:6000] if os.path.getsize(p[0]) < 20000 else None,
                                "replay": "printf 'dedup\\tx\\t%s\\t%s\\t%s\\n' | harness/target/debug/c03 /dev/stdout" % (p[0], p[1], p[2])},
                          "%s merged %s into %s although the bodies are not equal modulo renaming (proved checker alpha_eq rejects)" % (p[2], p[3], p[4]))
    ctx.log("fn-dedup: %d runs, %d merged pairs (%d distinct), alpha_eq accepts %d ; %s ; payload candidates (%d kinds x 2 profiles): %s"
            % (nstat["runs"], len(pairs), len(uniq), acc, dict(nstat), len(payload), dict(pl_stat)))
    if pl_stat["only-control-merged"] < len(payload):
        deferred.append(("payload-controls", {"stat": dict(pl_stat)}, "too few identical control pairs of the payload candidates were merged: the candidates do not exercise fn-dedup"))
    if acc < 40:
        deferred.append(("dedup-too-few", {"accepted": acc}, "too few merged pairs were validated: the dedup validator did not exercise the pass"))

    # ------------------------------------------------------------ (1b) dce / simplify-cfg: validate (before, after) pairs
    pfiles = (c03[:14] + [f for f in ir_gen if "/gen/" in f] + rng.sample([f for f in ir_gen if "/irgen/" in f], 25)) if quick else c03 + ir_gen + ir_tests
    pprefixes = ["-", "mem2reg", "inline,mem2reg", "mem2reg,simplify-cfg,ccp,const-folding"]
    lines, meta = [], {}
    for f in pfiles:
        for pre in pprefixes:
            for ps in ("dce", "simplify-cfg"):
                i = "p%d" % len(meta); meta[i] = (f, pre, ps); lines.append("pair\t%s\t%s\t%s\t%s" % (i, f, pre, ps))
    pstat = collections.Counter()
    suspects = []          # (file, prefix, pass, function, code) not accepted by a validator
    try:
        res = run_c03(binp, lines, ctx.work, "pair")
        cases = {"dce": {}, "simplify-cfg": {}}
        for i, (f, pre, ps) in meta.items():
            pend, pure = [], "[]"
            for l in res.get(i, []):
                if l[0] == "Q":
                    _, name, nb, na, rest = l.split(" ", 4)
                    pend.append((name, rest.split("\x01")))
                elif l[0] == "U": pure = l[2:].strip()
                elif l[0] == "N" and l.split(" ")[1] in ("err", "panic"): pstat["run-" + l.split(" ")[1]] += 1
            for name, (tb, ta, bm) in pend:
                term = "(%s, %s, %s)" % (pure, tb, ta) if ps == "dce" else "(%s, %s, %s)" % (bm, tb, ta)
                cases[ps].setdefault(term, (f, pre, ps, name))
        for ps, fn_, ty in (("dce", "judge_dce_all", "list N * fn * fn"), ("simplify-cfg", "judge_cfg_all", "list nat * fn * fn")):
            terms = sorted(cases[ps], key=len)
            if quick: terms = terms[:700]
            nsh = min(NCPU, max(1, len(terms) // 20))
            buckets = [terms[k::nsh] for k in range(nsh)]
            shards = ["Definition cs : list (%s) := [\n%s\n].\nEval vm_compute in (%s cs)." % (ty, ";\n".join(b), fn_) for b in buckets if b]
            jres = coq.run_cases(ctx, "c03" + ps[:3], "From SwayV Require Import Base.Util C03.Model C03.ModelVal C03.Judge.\nOpen Scope N_scope.", shards, timeout=1500)
            for b, r in zip([b for b in buckets if b], jres):
                assert len(r[0]) == len(b)
                for t, c in zip(b, r[0]):
                    pstat["%s:%d" % (ps, c)] += 1
                    if c != 0: suspects.append(cases[ps][t] + (c,))
    except (RuntimeError, AssertionError) as e:
        deferred.append(("validator-eval", {"log": str(e)[-3000:]}, "C03 dce / simplify-cfg validators could not be evaluated"))
    ctx.log("pair validators: %s" % dict(pstat))

    # ------------------------------------------------------------ (2) behaviour on the VM
    scripts = [f for f in c03 + ir_gen if open(f).read(200).lstrip().startswith("script")]
    if quick: scripts = c03[:14] + [f for f in scripts if "/gen/" in f] + rng.sample([f for f in scripts if "/irgen/" in f], 25)
    scripts += [f for f in payload if open(f).read(20).startswith("script")]
    # conditional-constant-propagation shape family: IR text written now + compiled Sway scripts (corpus/C03/ccp_src)
    ccp_files = c03_ccp.write_all(os.path.join(ctx.work, "ccp")) + sorted(glob.glob(os.path.join(ROOT, "corpus/C03/ccp_ir/*.ir")))
    scripts += ccp_files
    vs = variants(rng, quick)
    lines, meta = [], {}
    for f in scripts:
        i = "b%d" % len(meta); meta[i] = (f, "base", BASE); lines.append("run\t%s\t%s\t%s" % (i, f, ",".join(BASE)))
    try:
        base = run_c03(binp, lines, ctx.work, "base")
    except RuntimeError as e:
        ctx.violation("harness-run", {"log": str(e)[-3000:]}, "harness c03 failed to run", no_input=True); return
    baseline = {}
    bstat = collections.Counter()
    for i, (f, _, _) in meta.items():
        x = (base.get(i) or ["X missing"])[0][2:]
        bstat[x.split(" ")[0].split(":")[0]] += 1
        if x.startswith("ok "): baseline[f] = x
    # targeted search for the pairs a validator did not accept: the same prefix with and without the pass
    targeted = {}
    for (f, pre, ps, name, code) in suspects:
        if f in baseline or (open(f).read(200).lstrip().startswith("script")):
            targeted.setdefault((f, pre, ps), []).append((name, code))
    tlines, tmeta = [], {}
    prel = lambda pre: [p for p in pre.split(",") if p and p != "-"]
    for (f, pre, ps) in targeted:
        for tag, mid in (("with", prel(pre) + [ps]), ("without", prel(pre))):
            i = "t%d" % len(tmeta); tmeta[i] = (f, pre, ps, tag)
            tlines.append("run\t%s\t%s\t%s" % (i, f, ",".join(LOWER + mid + O0_MID + DEMOTE + TAIL)))
    tstat = collections.Counter()
    if tlines:
        try:
            tres = run_c03(binp, tlines, ctx.work, "targeted")
            got = {}
            for i, (f, pre, ps, tag) in tmeta.items():
                got[(f, pre, ps, tag)] = (tres.get(i) or ["X missing"])[0][2:]
            for (f, pre, ps), fl in targeted.items():
                a, b = got[(f, pre, ps, "with")], got[(f, pre, ps, "without")]
                if not b.startswith("ok "): tstat["not-runnable"] += 1
                elif a == b: tstat["same"] += 1
                else:
                    tstat["DIFF"] += 1
                    ctx.violation("%s:%s" % (short(f), ",".join(prel(pre) + [ps])),
                                  {"ir_file": f, "prefix": pre, "pass": ps, "functions_not_validated": fl[:10], "with": a[:400], "without": b[:400]},
                                  "%s after [%s] on %s: the structural validator does not accept the change of %s and the script behaves differently with the pass (%s) than without (%s)"
                                  % (ps, pre, short(f), fl[0][0], a[:120], b[:120]))
        except RuntimeError as e:
            deferred.append(("harness-run", {"log": str(e)[-2000:]}, "targeted behavioural runs failed"))
    # a removed value that is still used (code 2) is wrong whatever the VM says
    for (f, pre, ps, name, code) in suspects:
        if ps == "dce" and code == 2:
            deferred.append(("%s:%s,dce:%s:dangling" % (short(f), pre, name), {"ir_file": f, "prefix": pre, "function": name},
                             "dce removed an instruction whose value is still used in %s" % name))
    ctx.log("targeted behavioural search for %d unvalidated (module, prefix, pass): %s" % (len(targeted), dict(tstat)))

    lines, meta = [], {}
    for f in baseline:
        for name, ps in vs:
            # the hand-written payload candidates are only meant for fn-dedup (they read uninitialised locals etc.)
            if f in payload and not name.startswith("fn-dedup"): continue
            i = "v%d" % len(meta); meta[i] = (f, name, ps); lines.append("run\t%s\t%s\t%s" % (i, f, ",".join(ps)))
    try:
        res = run_c03(binp, lines, ctx.work, "var")
    except RuntimeError as e:
        ctx.violation("harness-run", {"log": str(e)[-3000:]}, "harness c03 failed to run", no_input=True); return
    vstat = collections.Counter()
    bad = {}
    for i, (f, name, ps) in meta.items():
        x = (res.get(i) or ["X missing"])[0][2:]
        if x == baseline[f]: vstat["same"] += 1; continue
        cls = x.split(" ")[0].split(":")[0]
        vstat["DIFF:" + cls] += 1
        # group by file and the first optional pass that is not in the baseline list
        bad.setdefault((f, cls), (name, ps, x))
    cnt = 0
    for (f, cls), (name, ps, x) in sorted(bad.items()):
        # minimise: drop passes that are not needed for the difference (never the mandatory skeleton)
        cur = list(ps)
        changed = True
        while changed and cnt < 400:
            changed = False
            for k in range(len(cur)):
                trial = cur[:k] + cur[k + 1:]
                if trial == BASE or not trial: continue
                cnt += 1
                r = run_c03(binp, ["run\tx\t%s\t%s" % (f, ",".join(trial))], ctx.work, "min").get("x", ["X missing"])[0][2:]
                if r != baseline[f] and r.split(" ")[0].split(":")[0] == cls and not r.startswith("backend") or (r.startswith("backend") and cls == "backend"):
                    # the shorter list must still be a legal pipeline: its own failure class must be the same
                    cur = trial; changed = True; break
        key = "%s:%s" % (short(f), ",".join(cur))
        ctx.violation(key, {"ir_file": f, "variant": name, "passes": cur, "original_passes": ps, "baseline_passes": BASE, "baseline": baseline[f][:500], "result": x[:500],
                            "replay": "printf 'run\\tx\\t%s\\t%s\\n' | harness/target/debug/c03 /dev/stdout" % (f, ",".join(cur))},
                      "script %s compiled with passes [%s] behaves differently from the baseline pipeline: %s vs %s" % (short(f), ",".join(cur), x[:160], baseline[f][:160]))
    ctx.log("behaviour: %d scripts runnable (%s), %d variants each: %s" % (len(baseline), dict(bstat), len(vs), dict(vstat)))
    if len(baseline) < 20 or vstat["same"] < 500:
        ctx.violation("behaviour-too-few", {"scripts": len(baseline), "stat": dict(vstat)}, "too few behavioural comparisons were possible", no_input=True)

    for key, rep, text in deferred:
        ctx.violation(key, rep, text + " (behavioural runs found no failing input)", no_input=True)
    ctx.coverage.update({
        "pair_validators": dict(pstat), "targeted_search": dict(tstat),
        "programs": len(baseline) + len(c03 + ir_gen + ir_tests),
        "disagreements_checked": len(uniq),
        "samples": [{"file": short(p[0]), "pass": p[2], "merged": "%s -> %s" % (p[3], p[4])} for p in uniq[:3]]
                   + [{"file": short(f), "variant": n} for (f, n, _) in list(meta.values())[:3]],
        "evaluations": len(uniq) + sum(vstat.values()),
        "distinct_nontrivial": len(uniq) + len({(f, tuple(ps)) for f, _, ps in meta.values()}),
        "rule": "dedup: distinct (removed body, kept body) pairs merged by the real pass on %d modules x 3 prefixes x 2 profiles; behaviour: distinct (script, pass list) "
                "with pass list != baseline; %d scripts x %d variants (each of %d optional passes at start/middle/end of the O0 skeleton, full O1, demotions early/twice, random lists)"
                % (len(c03 + ir_gen + ir_tests), len(baseline), len(vs), len(OPT)),
        "payload_candidates": dict(pl_stat), "payload_kinds": len(payload), "dedup_pairs": len(pairs), "dedup_pairs_distinct": len(uniq), "dedup_alpha_eq_accept": acc, "dedup_runs": dict(nstat),
        "behaviour_baseline": dict(bstat), "behaviour_variants": dict(vstat),
        "checker_cmd": "make -C coq C03/Props.vo C03/Judge.vo; coqc vm_compute judge_all over merged pairs",
        "trusted_base": ["Coq 8.16.1 kernel + vm_compute", "harness/src/bin/c03.rs (body export with Debug-rendered labels, fuel-vm driver)", "props/c03.py"],
        "explanation": "Proved: alpha_eq sound for any instruction semantics. Validated per run: every fn-dedup merge. Behaviour only: all other passes, by VM runs of scripts.",
    })
    ctx.assumptions += ["instruction labels (Debug rendering of InstOp with operands/blocks/callee/local handles abstracted) identify opcode + immediates",
                        "two functions with alpha-equal bodies, equal return type and equal locals are interchangeable at call sites (callee identity mapped through the merges)",
                        "dce / simplify-cfg / cse structural validators of DESIGN.md are not built; those passes are compared behaviourally only",
                        "behavioural comparison covers scripts without arguments; contracts and predicates are not executed"]
