"""C13 — configurables patched at the reported offsets are observed.

Theorems: coq/C13/Props.v (layout arithmetic of data_section.rs / to_bytecode_mut, all entry lists).
Tie: (a) the compiler's own `data_section` dump of generated packages must equal the model exactly
(C13/Judge.judge); (b) end-to-end on the real artefacts: bytecode + JSON ABI offsets, patch ONE
configurable with newly encoded bytes, run on fuel-vm, every configurable's logged value is judged in
Coq against Layout.Abi.enc (C13/Judge.judge_run)."""
import os, json, concurrent.futures as cf
from vlib import coq, rust, sway
from vlib.core import NCPU
from props import abigen as ag

CODES = {0: "agree", 1: "reported-offset-wrong", 2: "op-size-sum-differs", 3: "corr-to_bytes", 4: "corr-offsets",
         5: "corr-serialize", 6: "corr-named-offsets"}
RUN_CODES = {0: "ok", 1: "observed-differs", 8: "machinery-enc-mirror", 9: "machinery-ill-typed"}
KINDS = ag.CONST_KINDS


def gen_pkg(rng, base, idx, kind, ncfg, npatch):
    decls = ag.Decls()
    cfgs = []
    for i in range(ncfg):
        d = rng.choice([0, 0, 1, 1, 2])
        t = ag.gen_type(rng, d, decls, KINDS, max_fields=3)
        cfgs.append(("C%d" % i, t, ag.gen_value(rng, t)))
    logs = "\n".join("    log(%s);" % n for n, _, _ in cfgs)
    cfg_src = "\n".join("    %s: %s = %s," % (n, ag.sway_type(t), ag.sway_expr(t, v)) for n, t, v in cfgs)
    if kind == "script":
        main = "fn main() -> u64 {\n%s\n    0\n}" % logs
        tests = "#[test]\nfn t() {\n%s\n}\n" % logs
    else:
        # predicates cannot log: one reverting test per configurable, revert code = checksum of encode(C_i)
        main = ("fn main() -> bool {\n    true\n}\n"
                "fn hb(s: raw_slice) -> u64 {\n    let mut i = 0;\n    let mut r = 7;\n    let p = s.ptr();\n"
                "    while i < s.number_of_bytes() {\n        r = (r * 31 + p.add::<u8>(i).read::<u8>().as_u64()) % 1000000007;\n        i += 1;\n    }\n    r\n}")
        tests = "\n".join("#[test(should_revert)]\nfn t%03d() { __revert(hb(encode(%s))) }" % (i, n) for i, (n, _, _) in enumerate(cfgs))
    src = "%s;\n%s\nconfigurable {\n%s\n}\n%s\n%s\n" % (kind, decls.sway(), cfg_src, main, tests)
    name = "c13_%s_%d" % (kind[0], idx)
    d = sway.write_pkg(base, name, {"main.sw": src}, entry="main.sw")
    patches = []
    for i in rng.sample(range(ncfg), min(npatch, ncfg)):
        n, t, v = cfgs[i]
        nv = ag.gen_value(rng, t)
        patches.append((i, nv, ag.enc(t, nv)))
    json.dump([{"name": cfgs[i][0], "hex": b.hex()} for i, _, b in patches], open(os.path.join(d, "patches.json"), "w"))
    return {"dir": d, "cfgs": cfgs, "patches": patches, "kind": kind, "src": src}


def crossing_pkg(base, n):
    """Known finding: ~4 KB of non-copy constants + one configurable: appended pointer entries push the
    configurable beyond offset 4095 after op sizes were computed."""
    body = "\n".join("    let x%d: b256 = 0x%064x; log(x%d);" % (i, (i + 1) * 0x0101010101 + (1 << 200), i) for i in range(n))
    src = "script;\nconfigurable { C: u64 = 77, }\nfn main() -> u64 {\n%s\n    log(C);\n    C\n}\n#[test]\nfn t() {\n%s\n    log(C);\n}\n" % (body, body)
    return sway.write_pkg(base, "c13_cross_%d" % n, {"main.sw": src}, entry="main.sw"), src


def coq_entry(e):
    pd = e["padding"]
    (pk, pv), = pd.items()
    pad = "(%s %d)" % ("PLeft" if pk == "Left" else "PRight", pv["target_size"])
    nm = e["name"]
    name = "None" if nm == "NonConfigurable" else "(Some %s)" % ag.coq_bytes(nm["Configurable"].encode())
    (vk, vv), = e["value"].items()
    if vk == "Byte": d = "(DByte %d)" % vv
    elif vk == "Word": d = "(DWord %d)" % vv
    elif vk == "ByteArray": d = "(DByteArray %s)" % ag.coq_bytes(vv)
    elif vk == "Slice": d = "(DSlice %s)" % ag.coq_bytes(vv)
    else: d = "(DCollection [%s])" % ";".join(coq_entry(x) for x in vv)
    return "(Entry %s %s %s)" % (d, pad, name)


def entry_kinds(e, acc):
    (vk, vv), = e["value"].items()
    acc[vk] = acc.get(vk, 0) + 1
    if vk == "Collection":
        for x in vv: entry_kinds(x, acc)


def run_one(binp, d):
    dump = os.path.join(d, "dump.jsonl")
    if os.path.exists(dump): os.remove(dump)
    rc, out = rust.run(binp, [d], env={"VERIF_DUMP": dump, "VERIF_DUMP_KINDS": "data_section"}, timeout=1500)
    res = None
    for line in out.split("\n"):
        if line.startswith("{"):
            try: res = json.loads(line)
            except Exception: pass
    dumps = []
    if os.path.exists(dump):
        for l in open(dump):
            try: dumps.append(json.loads(l)["v"])
            except Exception: pass
    return d, res or {"status": "harness_error", "error": "rc=%s %s" % (rc, out[-800:])}, dumps


def logdata(test):
    return [bytes.fromhex(r["data"]) for r in test.get("receipts", []) if r.get("k") == "LogData"]


def observed(p, tests):
    """Coq list (list N) of what a run showed for each configurable, plus a JSON-able form."""
    import re
    if p["kind"] == "script":
        t = tests[0] if tests else {}
        bs = logdata(t)
        return "[%s]" % ";".join(ag.coq_bytes(b) for b in bs), {"state": t.get("state"), "logs": [b.hex() for b in bs]}
    codes = []
    for t in sorted(tests, key=lambda t: t.get("name", "")):
        m = re.match(r"Revert\((\d+)\)", t.get("state", ""))
        codes.append(int(m.group(1)) if m else -1)
    return "[%s]" % ";".join("[%d]" % c if c >= 0 else "[]" for c in codes), {"revert_codes": codes}


def run(ctx):
    ctx.level = "proof"
    # C13's definitions and theorems do not use the generated layout facts (only Layout.Bytes / Layout.Abi.enc);
    # the file merely has to exist for the shared Coq project.  A translator failure is C09/C10's business:
    # here the last good snapshot is installed and the run goes on.
    from tools import facts_layout
    facts_ok, facts_err = facts_layout.prepare()
    if not facts_ok:
        ctx.log("facts translator failed (%s): not used by C13, continuing with the last good facts" % facts_err)
    coq.build(["C13/Judge.vo"])      # separately: parallel COQC output would interleave with Props.v's Print Assumptions
    ok, out = coq.check_props(ctx, "C13")
    if not ok:
        ctx.log(out[-3000:])
        ctx.violation("proof", {"theorems": [o for o in ctx.obligations if not o[1]], "log": out[-2000:]}, "C13 proofs do not check", no_input=True)
    binp, bout = rust.build("c13")
    if binp is None:
        ctx.violation("harness-build", {"log": bout[-4000:]}, "harness c13 does not build against /repo", no_input=True)
        return
    base = os.path.join(ctx.work, "pkgs")
    npk = 8 if ctx.quick else 96
    pkgs = []
    for i in range(npk):
        kind = "predicate" if i % 4 == 3 else "script"
        pkgs.append(gen_pkg(ctx.rng, base, i, kind, ctx.rng.randint(4, 12), 6 if ctx.quick else 10))
    # known-finding probe(s)
    cross = [crossing_pkg(base, n) for n in ([100] if ctx.quick else [88, 92, 100, 110, 124, 126])]
    dirs = [p["dir"] for p in pkgs] + [c[0] for c in cross]
    with cf.ThreadPoolExecutor(max_workers=NCPU) as ex:
        results = {d: (r, dumps) for d, r, dumps in ex.map(lambda d: run_one(binp, d), dirs)}

    # ---- known finding: compiler panic when a configurable crosses offset 4095
    for d, src in cross:
        r, _ = results[d]
        if r["status"] == "panic":
            ctx.violation("unstable-addr-size-class", {"pkg_src": src[:2000] + "...", "panic": r.get("error")},
                          "compiler panics (%s) for a program whose configurable offset crosses 4095 once pointer entries are appended (stability hypothesis of C13_code_len_consistent violated)" % r.get("error"))
        elif r["status"] == "ok":
            t = r["base"][0] if r["base"] else {}
            if not t.get("passed"):
                ctx.violation("unstable-addr-size-class-misaddress", {"pkg_src": src[:2000], "test": t}, "program near the 4095 boundary built but misbehaves")

    dump_items, dump_meta, run_items, run_meta = [], [], [], []
    stats = {"pkgs_ok": 0, "build_error": 0, "panic": 0, "entry_kinds": {}, "patched_runs": 0, "cfg_types": {}}
    shapes = set()
    for p in pkgs:
        r, dumps = results[p["dir"]]
        if r["status"] != "ok":
            stats["build_error" if r["status"] == "build_error" else "panic"] += 1
            if r["status"] == "panic":
                ctx.violation("compiler-panic-" + os.path.basename(p["dir"]), {"src": p["src"], "error": r.get("error")}, "compiler panics on a generated package with configurables: %s" % r.get("error"))
            else:
                ctx.violation("generated-package-rejected", {"src": p["src"], "error": r.get("error")},
                              "generated package does not build (generator or compiler): %s" % (r.get("error") or "")[:300], no_input=True)
            continue
        stats["pkgs_ok"] += 1
        abi_cfg = {c["name"]: c["offset"] for c in (r["abi"].get("configurables") or [])}
        dl = [v for v in dumps if v.get("named_offsets")]
        if not dl:
            ctx.violation("no-dump", {"pkg": p["dir"]}, "no data_section dump produced (hook missing?)", no_input=True)
            continue
        v = dl[-1]
        # the ABI must report exactly the compiler's offsets
        if abi_cfg != {k: int(x) for k, x in v["named_offsets"].items()}:
            ctx.violation("abi-offset-differs", {"src": p["src"], "abi": abi_cfg, "compiler": v["named_offsets"]},
                          "JSON ABI configurable offsets differ from named_data_section_entries_offsets")
        for e in v["non_configurables"] + v["configurables"]:
            entry_kinds(e, stats["entry_kinds"])
        names = [e["name"]["Configurable"] for e in v["configurables"]]
        named = [abi_cfg.get(n, 0) for n in names]
        dump_items.append("(Dump [%s] [%s] %s [%s] %s %d %d %s)" % (
            ";".join(coq_entry(e) for e in v["non_configurables"]), ";".join(coq_entry(e) for e in v["configurables"]),
            ag.coq_bytes(v["entry_offsets"]), ";".join(ag.coq_bytes(bytes.fromhex(h)) for h in v["entry_bytes"]),
            ag.coq_bytes(bytes.fromhex(v["serialized"])), sum(v["op_sizes"]), v["offset_to_data_section"], ag.coq_bytes(named)))
        dump_meta.append(p)
        cfgs_c = "[%s]" % ";".join("(%s, %s)" % (ag.coq_aty(t), ag.coq_aval(t, val)) for _, t, val in p["cfgs"])
        for _, t, _ in p["cfgs"]:
            shapes.add(ag.shape(t)); stats["cfg_types"][t[0]] = stats["cfg_types"].get(t[0], 0) + 1
        # base run
        hashed = "false" if p["kind"] == "script" else "true"
        oc, oj = observed(p, r["base"])
        run_items.append("(judge_run %s %s None %s)" % (hashed, cfgs_c, oc))
        run_meta.append((p, None, oj))
        for (i, nv, pb), pr in zip(p["patches"], r["patched"]):
            t = p["cfgs"][i][1]
            tt = (pr.get("tests") or [{}])[0]
            if "error" in pr or any("error" in x for x in (pr.get("tests") or [])):
                ctx.violation("patched-run-error", {"src": p["src"], "patch": pr}, "patched run could not be executed: %s" % (pr.get("error") or tt.get("error")), no_input=True)
                continue
            stats["patched_runs"] += 1
            oc, oj = observed(p, pr.get("tests") or [])
            run_items.append("(judge_run %s %s (Some (%d%%nat, %s, %s)) %s)" % (hashed, cfgs_c, i, ag.coq_aval(t, nv), ag.coq_bytes(pb), oc))
            run_meta.append((p, (i, nv, pb), oj))

    shards = []
    nsh = max(1, min(NCPU, len(dump_items)))
    for k in range(nsh):
        di = dump_items[k::nsh]; ri = run_items[k::nsh]
        shards.append("Eval vm_compute in (map judge [%s]).\nEval vm_compute in [%s]." % (";\n".join(di), ";\n".join(ri)))
    try:
        res = coq.run_cases(ctx, "c13", "From SwayV Require Import Base.Util Layout.Bytes Layout.Abi C13.Model C13.Spec C13.Judge.\nLocal Open Scope N_scope.", shards)
    except RuntimeError as e:
        ctx.violation("model-eval", {"log": str(e)[-3000:]}, "C13 judge could not be evaluated (correspondence not checked)", no_input=True)
        return
    hist, rhist = {}, {}
    for k, sh_ in enumerate(res):
        dcodes, rcodes = sh_[0], sh_[1]
        for c, p in zip(dcodes, dump_meta[k::nsh]):
            hist[CODES[c]] = hist.get(CODES[c], 0) + 1
            key = "dump-" + os.path.basename(p["dir"])
            if c in (1, 2):
                ctx.violation(key, {"src": p["src"], "code": CODES[c]}, "data section of a generated package: %s" % CODES[c])
            elif c != 0:
                ctx.violation(key, {"src": p["src"], "code": CODES[c], "correspondence": "C13.dump=model"},
                              "compiler's data section differs from the model (%s) while the reported offsets select the right bytes; theorems no longer tied to the code" % CODES[c], no_input=True)
        for c, (p, patch, tt) in zip(rcodes, run_meta[k::nsh]):
            rhist[RUN_CODES.get(c, str(c))] = rhist.get(RUN_CODES.get(c, str(c)), 0) + 1
            if c == 1:
                what = "unpatched run" if patch is None else "patched %s" % p["cfgs"][patch[0]][0]
                ctx.violation("observe-%s-%s" % (os.path.basename(p["dir"]), "base" if patch is None else p["cfgs"][patch[0]][0]),
                              {"src": p["src"], "patch": None if patch is None else {"name": p["cfgs"][patch[0]][0], "hex": patch[2].hex()},
                               "observed": tt},
                              "%s: logged configurable values differ from (new value for the patched one, compiled-in values for the others)" % what)
            elif c != 0:
                ctx.violation("machinery-%d" % c, {"src": p["src"]}, "check machinery inconsistent (%s)" % RUN_CODES.get(c, c), no_input=True)
    ctx.coverage.update({
        "checker_cmd": "make -C coq C13/Props.vo C13/Judge.vo (coqc 8.16.1) + coqc vm_compute judge over data_section dumps and fuel-vm observations",
        "trusted_base": ["Coq 8.16.1 kernel + vm_compute", "tools/facts_layout.py (source -> Generated/LayoutFacts.v)",
                         "sway-core verif hook data_section dump (serde of the real DataSection)", "harness/src/bin/c13.rs (build, patch, run on fuel-vm 0.66 via forc-test)",
                         "props/c13.py + props/abigen.py (program generator; its encoder mirror is re-checked against Layout.Abi.enc in Coq)",
                         "instruction bytes are abstracted to their sizes (ops model: fixed / LoadDataId / AddrDataId)"],
        "evaluations": len(dump_items) + len(run_items),
        "distinct_nontrivial": len(shapes) + stats["patched_runs"],
        "rule": "random scripts/predicates with 4-12 configurables of random type trees (depth<=3: ints, bool, b256, u256, str[N], arrays, tuples, structs, enums, Option, Result); evaluations = data-section dumps judged + fuel-vm runs judged; distinct_nontrivial = distinct configurable type shapes + patched runs (each patches a different configurable/value)",
        "samples": [{"pkg": os.path.basename(p["dir"]), "configurables": [(n, ag.sway_type(t)) for n, t, _ in p["cfgs"]][:6]} for p in pkgs[:3]],
        "dump_judgements": hist, "run_judgements": rhist, "generator": stats,
        "explanation": "Proved for all entry lists: bytes at absolute_idx_to_offset are the entry's bytes; a patch within an entry leaves every other entry and the code untouched; reported offset = code length + offset; emitted length = sum of op sizes and pointer lookup succeeds under the stated stability hypothesis; without it the model panics like the compiler (known finding).",
    })
    ctx.assumptions += ["model = code for data_section.rs is established by exact comparison of the compiler's dumps on the generated packages only",
                        "instruction encoding is abstracted to sizes; that the program reads a configurable through AddrDataId at the reported offset is validated end-to-end on fuel-vm, not proved",
                        "stability hypothesis (appended pointers change no AddrDataId size class / loaded offset) is a hypothesis of C13_code_len_consistent; programs violating it are the known finding"]
