"""Shared generator for C09 / C10 / C13: random ABI type trees and values, their Sway source text,
a Python mirror of the canonical encoding (used only to produce patch bytes / expected logs that the
Coq judge re-derives with Layout.Abi.enc), and printers to Coq terms (Layout.Abi.aty / aval).

Type trees (tuples):
  ("unit",) ("bool",) ("u8",) ("u16",) ("u32",) ("u64",) ("u256",) ("b256",)
  ("strarr", n) ("str",) ("raw_slice",) ("bytes",) ("string",)
  ("vec", t) ("array", t, n) ("tuple", [ts]) ("struct", name, [ts]) ("enum", name, [ts])
  ("option", t) ("result", t, e)
Values: None for unit, bool, int, bytes (strarr/str/raw_slice/bytes/string), list (vec/array/tuple/struct),
  (tag, payload) for enum/option/result.
"""
WIDTH = {"u8": 1, "u16": 2, "u32": 4, "u64": 8, "u256": 32, "b256": 32}
CONST_KINDS = ["bool", "u8", "u16", "u32", "u64", "u256", "b256", "strarr", "array", "tuple", "struct", "enum", "option", "result"]
HEAP_KINDS = ["str", "bytes", "string", "vec", "raw_slice"]


class Decls:
    """Struct/enum declarations of one generated package."""
    def __init__(self, prefix=""):
        self.items = []   # (kind, name, [types])
        self.prefix = prefix
    def add(self, kind, fields):
        name = "%s%s%d" % (self.prefix, "S" if kind == "struct" else "E", len(self.items))
        self.items.append((kind, name, fields))
        return name
    def sway(self):
        out = []
        for kind, name, fs in self.items:
            if kind == "struct":
                out.append("struct %s { %s }" % (name, ", ".join("f%d: %s" % (i, sway_type(t)) for i, t in enumerate(fs))))
            else:
                out.append("enum %s { %s }" % (name, ", ".join("V%d: %s" % (i, sway_type(t)) for i, t in enumerate(fs))))
        return "\n".join(out)


def gen_type(rng, depth, decls, kinds, leafs=None, max_fields=4, allow_unit_variant=True):
    leafs = leafs or [k for k in kinds if k in ("bool", "u8", "u16", "u32", "u64", "u256", "b256", "strarr", "str", "bytes", "string", "raw_slice")]
    k = rng.choice(leafs if depth <= 0 else kinds)
    sub = lambda: gen_type(rng, depth - 1, decls, kinds, leafs, max_fields, allow_unit_variant)
    if k in ("bool", "u8", "u16", "u32", "u64", "u256", "b256", "str", "bytes", "string", "raw_slice"):
        return (k,)
    if k == "strarr":
        return ("strarr", rng.choice([1, 2, 3, 4, 5, 7, 8, 9, 12, 16, 17]))
    if k == "vec":
        return ("vec", sub())
    if k == "array":
        return ("array", sub(), rng.choice([1, 2, 3, 5]))
    if k == "tuple":
        return ("tuple", [sub() for _ in range(rng.randint(1, max_fields))])
    if k == "struct":
        fs = [sub() for _ in range(rng.randint(1, max_fields))]
        return ("struct", decls.add("struct", fs), fs)
    if k == "enum":
        n = rng.randint(1, max_fields)
        vs = [(("unit",) if (allow_unit_variant and rng.random() < 0.3) else sub()) for _ in range(n)]
        return ("enum", decls.add("enum", vs), vs)
    if k == "option":
        return ("option", sub())
    if k == "result":
        return ("result", sub(), sub())
    raise ValueError(k)


def variants(t):
    if t[0] == "enum": return t[2]
    if t[0] == "option": return [("unit",), t[1]]
    if t[0] == "result": return [t[1], t[2]]
    raise ValueError(t)


def fields(t):
    return t[1] if t[0] == "tuple" else t[2]


def gen_int(rng, bits):
    c = rng.random()
    top = (1 << bits) - 1
    if c < 0.15: return 0
    if c < 0.3: return top
    if c < 0.4: return 1
    if c < 0.5: return 1 << (bits - 1)
    if c < 0.6: return rng.randrange(256) % (top + 1)
    return rng.randrange(top + 1)


ALNUM = b"abcdefghijklmnopqrstuvwxyzABCDEFGHIJKLMNOPQRSTUVWXYZ0123456789"


def gen_value(rng, t):
    k = t[0]
    if k == "unit": return None
    if k == "bool": return rng.random() < 0.5
    if k in WIDTH: return gen_int(rng, 8 * WIDTH[k])
    if k == "strarr": return bytes(rng.choice(ALNUM) for _ in range(t[1]))
    if k in ("str", "string"): return bytes(rng.choice(ALNUM) for _ in range(rng.choice([0, 1, 3, 8, 9, 20])))
    if k in ("bytes", "raw_slice"): return bytes(rng.randrange(256) for _ in range(rng.choice([0, 1, 3, 8, 9, 20])))
    if k == "vec": return [gen_value(rng, t[1]) for _ in range(rng.choice([0, 1, 2, 3]))]
    if k == "array": return [gen_value(rng, t[1]) for _ in range(t[2])]
    if k in ("tuple", "struct"): return [gen_value(rng, f) for f in fields(t)]
    if k in ("enum", "option", "result"):
        vs = variants(t)
        tag = rng.randrange(len(vs))
        return (tag, gen_value(rng, vs[tag]))
    raise ValueError(t)


def enc(t, v):
    k = t[0]
    if k == "unit": return b""
    if k == "bool": return bytes([1 if v else 0])
    if k in WIDTH: return v.to_bytes(WIDTH[k], "big")
    if k == "strarr": return bytes(v)
    if k in ("str", "raw_slice", "bytes", "string"): return len(v).to_bytes(8, "big") + bytes(v)
    if k == "vec": return len(v).to_bytes(8, "big") + b"".join(enc(t[1], x) for x in v)
    if k == "array": return b"".join(enc(t[1], x) for x in v)
    if k in ("tuple", "struct"): return b"".join(enc(f, x) for f, x in zip(fields(t), v))
    if k in ("enum", "option", "result"):
        tag, pv = v
        return tag.to_bytes(8, "big") + enc(variants(t)[tag], pv)
    raise ValueError(t)


def max_enc_len(t):
    """Upper bound of the encoded length for types without heap parts (configurables)."""
    k = t[0]
    if k == "unit": return 0
    if k == "bool": return 1
    if k in WIDTH: return WIDTH[k]
    if k == "strarr": return t[1]
    if k == "array": return t[2] * max_enc_len(t[1])
    if k in ("tuple", "struct"): return sum(max_enc_len(f) for f in fields(t))
    if k in ("enum", "option", "result"): return 8 + max(max_enc_len(x) for x in variants(t))
    raise ValueError(t)


def sway_type(t):
    k = t[0]
    if k == "unit": return "()"
    if k in ("bool", "u8", "u16", "u32", "u64", "u256", "b256", "str", "raw_slice"): return k
    if k == "bytes": return "Bytes"
    if k == "string": return "String"
    if k == "strarr": return "str[%d]" % t[1]
    if k == "vec": return "Vec<%s>" % sway_type(t[1])
    if k == "array": return "[%s; %d]" % (sway_type(t[1]), t[2])
    if k == "tuple":
        return "(%s%s)" % (", ".join(sway_type(x) for x in t[1]), "," if len(t[1]) == 1 else "")
    if k in ("struct", "enum"): return t[1]
    if k == "option": return "Option<%s>" % sway_type(t[1])
    if k == "result": return "Result<%s, %s>" % (sway_type(t[1]), sway_type(t[2]))
    raise ValueError(t)


class Fresh:
    def __init__(self): self.n = 0
    def __call__(self):
        self.n += 1
        return "h%d" % self.n


def sway_expr(t, v, pre=None, fresh=None):
    """Sway expression for value v : t. Heap values need statements, appended to `pre`."""
    k = t[0]
    rec = lambda tt, vv: sway_expr(tt, vv, pre, fresh)
    if k == "unit": return "()"
    if k == "bool": return "true" if v else "false"
    if k in ("u8", "u16", "u32", "u64"): return "%d%s" % (v, k)
    if k == "u256": return "0x%064xu256" % v
    if k == "b256": return "0x%064x" % v
    if k == "strarr": return '__to_str_array("%s")' % bytes(v).decode("ascii")
    if k == "str": return '"%s"' % bytes(v).decode("ascii")
    if k == "string":
        return 'String::from_ascii_str("%s")' % bytes(v).decode("ascii")
    if k in ("bytes", "raw_slice"):
        x = fresh()
        pre.append("let mut %s = Bytes::new();" % x)
        for b in v: pre.append("%s.push(%du8);" % (x, b))
        return x if k == "bytes" else "%s.as_raw_slice()" % x
    if k == "vec":
        items = [rec(t[1], x) for x in v]
        x = fresh()
        pre.append("let mut %s: %s = Vec::new();" % (x, sway_type(t)))
        for it in items: pre.append("%s.push(%s);" % (x, it))
        return x
    if k == "array":
        items = [rec(t[1], x) for x in v]
        if pre is not None and fresh is not None and t[1][0] in ("result", "option", "tuple", "array"):
            # `[Ok(a), Ok(b)]` / `[None, None]` leave a type parameter of the element type undetermined and the
            # compiler rejects the literal even under a type ascription: bind every element to a typed local
            named = []
            for it in items:
                x = fresh()
                pre.append("let %s: %s = %s;" % (x, sway_type(t[1]), it))
                named.append(x)
            items = named
        return "[%s]" % ", ".join(items)
    if k == "tuple":
        return "(%s%s)" % (", ".join(rec(f, x) for f, x in zip(t[1], v)), "," if len(v) == 1 else "")
    if k == "struct":
        return "%s { %s }" % (t[1], ", ".join("f%d: %s" % (i, rec(f, x)) for i, (f, x) in enumerate(zip(t[2], v))))
    if k == "enum":
        tag, pv = v
        vt = t[2][tag]
        return "%s::V%d" % (t[1], tag) if vt[0] == "unit" else "%s::V%d(%s)" % (t[1], tag, rec(vt, pv))
    if k == "option":
        tag, pv = v
        return "None" if tag == 0 else "Some(%s)" % rec(t[1], pv)
    if k == "result":
        tag, pv = v
        return ("Ok(%s)" if tag == 0 else "Err(%s)") % rec(variants(t)[tag], pv)
    raise ValueError(t)


def coq_aty(t):
    k = t[0]
    simple = {"unit": "AUnit", "bool": "ABool", "u8": "AU8", "u16": "AU16", "u32": "AU32", "u64": "AU64", "u256": "AU256",
              "b256": "AB256", "str": "AStr", "raw_slice": "ARawSlice", "bytes": "ABytes", "string": "AString"}
    if k in simple: return simple[k]
    if k == "strarr": return "(AStrArr %d)" % t[1]
    if k == "vec": return "(AVec %s)" % coq_aty(t[1])
    if k == "array": return "(AArray %s %d)" % (coq_aty(t[1]), t[2])
    if k == "tuple": return "(ATuple [%s])" % ";".join(coq_aty(x) for x in t[1])
    if k == "struct": return "(AStruct [%s])" % ";".join(coq_aty(x) for x in t[2])
    if k in ("enum", "option", "result"): return "(AEnum [%s])" % ";".join(coq_aty(x) for x in variants(t))
    raise ValueError(t)


def coq_bytes(bs):
    return "[" + ";".join(str(int(b)) for b in bs) + "]"


def coq_aval(t, v):
    k = t[0]
    if k == "unit": return "VUnit"
    if k == "bool": return "(VBool %s)" % ("true" if v else "false")
    if k in WIDTH: return "(VNum %d)" % v
    if k in ("strarr", "str", "raw_slice", "bytes", "string"): return "(VBytes %s)" % coq_bytes(v)
    if k in ("vec", "array"): return "(VSeq [%s])" % ";".join(coq_aval(t[1], x) for x in v)
    if k in ("tuple", "struct"): return "(VSeq [%s])" % ";".join(coq_aval(f, x) for f, x in zip(fields(t), v))
    if k in ("enum", "option", "result"):
        tag, pv = v
        return "(VEnum %d %s)" % (tag, coq_aval(variants(t)[tag], pv))
    raise ValueError(t)


def type_key(t):
    return sway_type(t) if t[0] not in ("struct", "enum") else "%s%s" % (t[0], [type_key(x) for x in t[2]])


def shape(t):
    """Canonical structural string (names erased) — used to count distinct type trees."""
    k = t[0]
    if k in ("struct", "enum"): return "%s{%s}" % (k, ",".join(shape(x) for x in t[2]))
    if k == "tuple": return "(%s)" % ",".join(shape(x) for x in t[1])
    if k == "array": return "[%s;%d]" % (shape(t[1]), t[2])
    if k == "vec": return "vec<%s>" % shape(t[1])
    if k == "option": return "opt<%s>" % shape(t[1])
    if k == "result": return "res<%s,%s>" % (shape(t[1]), shape(t[2]))
    if k == "strarr": return "str[%d]" % t[1]
    return k


def depth(t):
    k = t[0]
    subs = []
    if k in ("struct", "enum"): subs = t[2]
    elif k == "tuple": subs = t[1]
    elif k in ("array", "vec", "option"): subs = [t[1]]
    elif k == "result": subs = [t[1], t[2]]
    return 1 + max([depth(x) for x in subs], default=0)


def neighbourhood(decls, with_heap=False):
    """Systematic small types around the classification boundary (1-tuples, arrays, pairs, one-field structs of
    every leaf, incl. bool and small enums; optionally Vecs).  Used as the focused SEARCH when the tie to the
    source broke (facts translator failed or a proof no longer checks)."""
    S = lambda fs: ("struct", decls.add("struct", fs), fs)
    E = lambda vs: ("enum", decls.add("enum", vs), vs)
    u64, u8, unit = ("u64",), ("u8",), ("unit",)
    leaves = [("bool",), u8, ("u16",), ("u32",), u64, ("b256",), ("strarr", 5), ("strarr", 8),
              E([u64, u64]), E([unit, unit]), E([u8, u64]), ("option", u64), ("tuple", [u64, u64])]
    out = []
    for L in leaves:
        out += [("tuple", [L]), ("array", L, 2), ("array", ("tuple", [L]), 2), ("tuple", [L, L]), S([L])]
        if with_heap:
            out += [("vec", L), ("vec", ("tuple", [L]))]
        # array followed by further fields inside an aggregate that is not trivially decodable
        out += [("tuple", [("array", L, 2), ("u16",)]), S([("bool",), ("array", L, 3), ("u32",)])]
    return out
