"""C03 — systematic fn-dedup candidates: for every kind of non-value payload that fn_dedup's hash_fn must take
into account, one IR module with three functions called from main:
   fa  : the payload variant A
   fb  : identical to fa except for that ONE payload (variant B)       -> must NOT be merged with fa/fc
   fc  : identical to fa (control)                                      -> is expected to be merged with fa
main combines the three results (a + 3*b + 5*c) so that a wrong merge also changes the result where the
module can run. Written as IR text (grammar of sway-ir/src/parser.rs)."""

B256_0 = "0x" + "00" * 32
B256_1 = "0x" + "00" * 31 + "01"

# (name, module-level declarations, params text, call args (list of "ty value"), return type, locals (list), body lines with @@, A, B)
# The body must end with `ret <ret> <value>`. Every value name used must be defined in the body.
CASES = []


def case(name, body, a, b, ret="u64", params="", args=(), locals_=(), decls="", locals_b=None, params_b=None, args_b=None, ret_b=None, kind="script"):
    CASES.append(dict(kind=kind, name=name, body=body, a=a, b=b, ret=ret, params=params, args=list(args), locals=list(locals_), decls=decls,
                      locals_b=locals_b, params_b=params_b, args_b=args_b, ret_b=ret_b))


KEY = ["z = const u64 0", "k = int_to_ptr z to __ptr b256"]

# --- FuelVM instruction immediates / ids
case("state_load_word_offset", KEY + ["r = state_load_word key k, @@", "ret u64 r"], "0", "1")
case("gtf_field", ["i = const u64 0", "r = gtf i, @@", "ret u64 r"], "1", "2")
case("gtf_index", ["i = const u64 @@", "r = gtf i, 5", "ret u64 r"], "0", "1")
case("read_register", ["r = read_register @@", "ret u64 r"], "sp", "hp")
case("log_id", ["x = const u64 7", "i = const u64 @@", "log u64 x, i", "ret u64 x"], "1", "2")
case("log_value", ["x = const u64 @@", "i = const u64 1", "log u64 x, i", "ret u64 x"], "7", "8")
case("log_type", ["x = const @@", "i = const u64 1", "log @TY@ x, i", "r = const u64 1", "ret u64 r"], "u64 7", "u8 7")
case("log_event_data", ["x = const u64 7", "i = const u64 1",
                        "log u64 x, i log_data(version: 0, is_event: true, is_indexed: true, event_type_size: 8, num_elements: @@)", "ret u64 x"], "1", "2")
case("smo_coins", KEY + ["p = get_local __ptr { u64, u64 }, msg", "m = const u64 8", "c = const u64 @@", "smo k, p, m, c", "r = const u64 1", "ret u64 r"], "0", "1",
     locals_=["local { u64, u64 } msg"])
case("smo_size", KEY + ["p = get_local __ptr { u64, u64 }, msg", "m = const u64 @@", "c = const u64 0", "smo k, p, m, c", "r = const u64 1", "ret u64 r"], "8", "16",
     locals_=["local { u64, u64 } msg"])
case("state_read_slot_len", KEY + ["d = int_to_ptr z to ptr", "o = const u64 0", "n = const u64 @@", "r = state_read_slot d, key k, o, n", "ret u64 n"], "8", "16")
case("state_preload_key", ["z = const u64 @@", "k = int_to_ptr z to __ptr b256", "r = state_preload key k", "q = const u64 1", "ret u64 q"], "0", "32")
case("retd_len", ["z = const u64 0", "p = int_to_ptr z to ptr", "n = const u64 @@", "retd p n"], "8", "16")
case("block_param_type", ["br t(x)", "", "t(v: @@):", "r = const u64 1", "ret u64 r"], "u64", "u8", params="x: u64", args=["u64 5"])
case("revert_code", ["c = const u64 @@", "revert c"], "1", "2")
case("state_load_quad_slots", KEY + ["n = const u64 @@", "r = state_load_quad_word k, key k, n", "ret u64 n"], "1", "2")
case("state_store_word_value", KEY + ["v = const u64 @@", "r = state_store_word v, key k", "ret u64 v"], "1", "2")
case("state_clear_slots", KEY + ["n = const u64 @@", "r = state_clear key k, n", "ret u64 n"], "1", "2")
case("wide_binop_kind", ["p = get_local __ptr u256, w", "wide @@ p, p to p", "r = const u64 1", "ret u64 r"], "add", "sub", locals_=["local u256 w"])
case("wide_binop_kind2", ["p = get_local __ptr u256, w", "wide @@ p, p to p", "r = const u64 1", "ret u64 r"], "and", "xor", locals_=["local u256 w"])
case("wide_shift_kind", ["p = get_local __ptr u256, w", "s = const u64 2", "wide @@ p, s to p", "r = const u64 1", "ret u64 r"], "lsh", "rsh", locals_=["local u256 w"])
case("wide_cmp_pred", ["p = get_local __ptr u256, w", "b = wide cmp @@ p p", "ret bool b"], "eq", "lt", ret="bool", locals_=["local u256 w"])
case("wide_mod_vs_operand", ["p = get_local __ptr u256, w", "q = get_local __ptr u256, w2", "wide mod p, @@, q to p", "r = const u64 1", "ret u64 r"], "p", "q",
     locals_=["local u256 w", "local u256 w2"])

# --- asm blocks: text, registers, immediates, return register, argument names
case("asm_opcode", ["r = asm(r1: x, r2) -> u64 r2 {", "    @@ r2 r1 r1", "}", "ret u64 r"], "add", "mul", params="x: u64", args=["u64 5"])
case("asm_imm", ["r = asm(r1: x, r2) -> u64 r2 {", "    addi r2 r1 @@", "}", "ret u64 r"], "i5", "i6", params="x: u64", args=["u64 5"])
case("asm_reg_operand", ["r = asm(r1: x, r2: y, r3) -> u64 r3 {", "    add r3 r1 @@", "}", "ret u64 r"], "r1", "r2", params="x: u64, y: u64", args=["u64 5", "u64 9"])
case("asm_ret_reg", ["r = asm(r1: x, r2: y) -> u64 @@ {", "}", "ret u64 r"], "r1", "r2", params="x: u64, y: u64", args=["u64 5", "u64 9"])
case("asm_ret_type", ["r = asm(r1: x) -> @@ r1 {", "}", "q = const u64 1", "ret u64 q"], "u64", "bool", params="x: u64", args=["u64 5"])
case("asm_arg_init_const", ["r = asm(r1: x, r2) -> u64 r2 {", "    movi r2 @@", "    add r2 r2 r1", "}", "ret u64 r"], "i1", "i2", params="x: u64", args=["u64 5"])
case("asm_extra_op", ["r = asm(r1: x, r2) -> u64 r2 {", "    add r2 r1 r1", "    @@ r2 r2 r1", "}", "ret u64 r"], "add", "sub", params="x: u64", args=["u64 5"])

# --- casts and types
case("bitcast_type", ["b = bitcast x to @@", "ret u64 x"], "bool", "u8", params="x: u64", args=["u64 5"])
case("cast_ptr_type", ["p = get_local __ptr u64, l", "q = cast_ptr p to __ptr @@", "r = const u64 1", "ret u64 r"], "u8", "bool", locals_=["local u64 l"])
case("int_to_ptr_type", ["p = int_to_ptr x to __ptr @@", "ret u64 x"], "u64", "b256", params="x: u64", args=["u64 5"])
case("alloc_type", ["c = const u64 2", "p = alloc @@ x c", "ret u64 c"], "u64", "u8")
case("alloc_count", ["c = const u64 @@", "p = alloc u64 x c", "ret u64 c"], "2", "3")
case("gep_index", ["p = get_local __ptr { u64, u64 }, s", "i = const u64 @@", "q = get_elem_ptr p, __ptr u64, i", "r = load q", "ret u64 r"], "0", "1",
     locals_=["local { u64, u64 } s"])
case("gep_index_nested", ["p = get_local __ptr { u64, { u64, u64 } }, s", "i = const u64 1", "j = const u64 @@", "q = get_elem_ptr p, __ptr u64, i, j", "r = load q", "ret u64 r"],
     "0", "1", locals_=["local { u64, { u64, u64 } } s"])
case("gep_array_index", ["p = get_local __ptr [u64; 3], s", "i = const u64 @@", "q = get_elem_ptr p, __ptr u64, i", "r = load q", "ret u64 r"], "1", "2",
     locals_=["local [u64; 3] s"])
case("mem_copy_bytes_len", ["p = get_local __ptr b256, s", "q = get_local __ptr b256, t", "mem_copy_bytes p, q, @@", "r = const u64 1", "ret u64 r"], "8", "16",
     locals_=["local b256 s", "local b256 t"])
case("mem_copy_val_operands", ["p = get_local __ptr b256, s", "q = get_local __ptr b256, t", "mem_copy_val @@", "r = const u64 1", "ret u64 r"], "p, q", "q, p",
     locals_=["local b256 s", "local b256 t"])

# --- constants of every type
case("const_u64", ["r = const u64 @@", "ret u64 r"], "7", "8")
case("const_u8", ["r = const u8 @@", "ret u8 r"], "7", "8", ret="u8")
case("const_bool", ["r = const bool @@", "ret bool r"], "true", "false", ret="bool")
case("const_b256", ["r = const b256 @@", "ret b256 r"], B256_0, B256_1, ret="b256")
case("const_u256", ["r = const u256 @@", "ret u256 r"], B256_0, B256_1, ret="u256")
case("const_string", ["r = const string<3> @@", "ret string<3> r"], '"abc"', '"abd"', ret="string<3>")
case("const_struct", ["r = const { u64, u64 } { u64 1, u64 @@ }", "ret { u64, u64 } r"], "2", "3", ret="{ u64, u64 }")
case("const_array", ["r = const [u64; 2] [u64 1, u64 @@]", "ret [u64; 2] r"], "2", "3", ret="[u64; 2]")
case("const_nested", ["r = const { u64, [bool; 2] } { u64 1, [bool; 2] [bool true, bool @@] }", "ret { u64, [bool; 2] } r"], "true", "false", ret="{ u64, [bool; 2] }")

# --- locals: type, initialiser, mutability, name
case("local_type", ["r = const u64 1", "ret u64 r"], "", "", locals_=["local u64 unused"], locals_b=["local u8 unused"])
case("local_init", ["p = get_local __ptr u64, l", "r = load p", "ret u64 r"], "", "", locals_=["local u64 l = const u64 1"], locals_b=["local u64 l = const u64 2"])
case("local_mut", ["r = const u64 1", "ret u64 r"], "", "", locals_=["local u64 l"], locals_b=["local mut u64 l"])
case("local_which", ["p = get_local __ptr u64, @@", "r = load p", "ret u64 r"], "l1", "l2", locals_=["local u64 l1 = const u64 1", "local u64 l2 = const u64 2"])

# --- function signature
case("arg_type", ["r = const u64 1", "ret u64 r"], "", "", params="x: u64", args=["u64 5"], params_b="x: u8", args_b=["u8 5"])
case("ret_type", ["r = const @@ 1", "ret @@ r"], "u64", "u8", ret="u64", ret_b="u8")
case("arg_which", ["ret u64 @@"], "x", "y", params="x: u64, y: u64", args=["u64 5", "u64 9"])

# --- calls, branches, predicates, operators
G12 = "    fn g1() -> u64 {\n        entry():\n        r = const u64 1\n        ret u64 r\n    }\n\n    fn g2() -> u64 {\n        entry():\n        r = const u64 2\n        ret u64 r\n    }\n"
case("call_target", ["r = call @@()", "ret u64 r"], "g1", "g2", decls=G12)
case("call_arg", ["c = const u64 @@", "r = call h(c)", "ret u64 r"], "1", "2",
     decls="    fn h(x: u64) -> u64 {\n        entry(x: u64):\n        c = const u64 3\n        r = mul x, c\n        ret u64 r\n    }\n")
case("cbr_targets", ["c = const u64 5", "b = cmp lt x c", "cbr b, @@", "", "t1():", "r1 = const u64 10", "ret u64 r1", "", "t2():", "r2 = const u64 20", "ret u64 r2"],
     "t1(), t2()", "t2(), t1()", params="x: u64", args=["u64 3"])
case("br_target", ["br @@()", "", "t1():", "r1 = const u64 10", "ret u64 r1", "", "t2():", "r2 = const u64 20", "ret u64 r2"], "t1", "t2")
case("br_arg", ["br t(@@)", "", "t(v: u64):", "ret u64 v"], "x", "y", params="x: u64, y: u64", args=["u64 5", "u64 9"])
case("cbr_args", ["c = const u64 5", "b = cmp lt x c", "cbr b, t(@@)", "", "t(v: u64):", "ret u64 v"], "x), t(y", "y), t(x", params="x: u64, y: u64", args=["u64 3", "u64 9"])
case("cmp_pred", ["c = const u64 5", "b = cmp @@ x c", "ret bool b"], "lt", "gt", ret="bool", params="x: u64", args=["u64 3"])
case("cmp_pred_eq", ["c = const u64 5", "b = cmp @@ x c", "ret bool b"], "eq", "lt", ret="bool", params="x: u64", args=["u64 5"])
for k, (a, b) in enumerate([("add", "sub"), ("mul", "div"), ("and", "or"), ("xor", "mod"), ("lsh", "rsh"), ("add", "mul")]):
    case("binop_%d_%s_%s" % (k, a, b), ["c = const u64 3", "r = @@ x, c", "ret u64 r"], a, b, params="x: u64", args=["u64 12"])
case("binop_operand_order", ["r = sub @@", "ret u64 r"], "x, y", "y, x", params="x: u64, y: u64", args=["u64 9", "u64 9"])
case("unary_vs_identity", ["n = not x", "ret u64 @@"], "n", "x", params="x: u64", args=["u64 12"])
case("load_which", ["p = get_local __ptr u64, a", "q = get_local __ptr u64, b", "r = load @@", "ret u64 r"], "p", "q",
     locals_=["local u64 a = const u64 1", "local u64 b = const u64 2"])
case("store_value", ["p = get_local __ptr u64, a", "c = const u64 @@", "store c to p", "r = load p", "ret u64 r"], "1", "2", locals_=["local mut u64 a"])
case("ptr_to_int_src", ["p = get_local __ptr u64, a", "q = get_local __ptr u64, b", "r = ptr_to_int @@ to u64", "ret u64 r"], "p", "q", locals_=["local u64 a", "local u64 b"])

# --- contract call: name, return type, operands
CC = ["p = get_local __ptr { b256, u64, u64 }, args", "a = get_local __ptr b256, asset", "c = const u64 @C@", "g = const u64 1000"]
case("contract_call_name", CC + ["r = contract_call u64 @@ p, c, a, g", "ret u64 r"], "get_a", "get_b", locals_=["local { b256, u64, u64 } args", "local b256 asset"])
case("contract_call_coins", [l.replace("@C@", "@@") for l in CC] + ["r = contract_call u64 f p, c, a, g", "ret u64 r"], "0", "1",
     locals_=["local { b256, u64, u64 } args", "local b256 asset"])
case("contract_call_ret_type", CC + ["r = contract_call @@ f p, c, a, g", "q = const u64 1", "ret u64 q"], "u64", "bool", locals_=["local { b256, u64, u64 } args", "local b256 asset"])

# --- module level objects
case("get_global_name", ["p = get_global __ptr u64, @@", "r = load p", "ret u64 r"], "X", "Y", decls="    global X : u64 = const u64 11\n    global Y : u64 = const u64 12\n")
case("get_storage_key_path", ["p = get_storage_key __ptr { b256, u64, b256 }, storage.@@", "r = const u64 1", "ret u64 r"], "a", "b",
     decls="    storage_key storage.a = 0x" + "11" * 32 + "\n    storage_key storage.b = 0x" + "22" * 32 + "\n", kind="contract")


def fn_text(name, c, variant):
    v = c["a"] if variant == "a" else c["b"]
    params = c["params_b"] if (variant == "b" and c["params_b"] is not None) else c["params"]
    ret = c["ret_b"] if (variant == "b" and c["ret_b"] is not None) else c["ret"]
    locs = c["locals_b"] if (variant == "b" and c["locals_b"] is not None) else c["locals"]
    out = ["    fn %s(%s) -> %s {" % (name, params, ret)]
    for l in locs: out.append("        " + l)
    if locs: out.append("")
    out.append("        entry(%s):" % params)
    for l in c["body"]:
        l = l.replace("@C@", "0")
        if "@TY@" in l: l = l.replace("@TY@", v.split(" ")[0])
        out.append(("        " + l.replace("@@", v)) if l else "")
    out.append("    }")
    return "\n".join(out)


def module_text(c):
    lines = [c["kind"] + " {"]
    if c["decls"]: lines.append(c["decls"])
    lines.append("    entry fn main() -> u64 {")
    lines.append("        entry():")
    n = 0
    rets = []
    for fname, variant in (("fa", "a"), ("fb", "b"), ("fc", "a")):
        args = c["args_b"] if (variant == "b" and c["args_b"] is not None) else c["args"]
        names = []
        for a in args:
            lines.append("        k%d = const %s" % (n, a)); names.append("k%d" % n); n += 1
        lines.append("        %s_r = call %s(%s)" % (fname, fname, ", ".join(names)))
        ret = c["ret_b"] if (variant == "b" and c["ret_b"] is not None) else c["ret"]
        rets.append(ret)
    if all(r == "u64" for r in rets):
        lines += ["        c3 = const u64 3", "        c5 = const u64 5", "        t1 = mul fb_r, c3", "        t2 = mul fc_r, c5",
                  "        t3 = add fa_r, t1", "        t4 = add t3, t2", "        ret u64 t4"]
    elif all(r == "bool" for r in rets):
        lines += ["        br m0()", "", "        m0():", "        cbr fa_r, m1(), m2()", "", "        m1():", "        cbr fb_r, m3(), m4()", "",
                  "        m2():", "        cbr fb_r, m5(), m6()", "",
                  "        m3():", "        r3 = const u64 3", "        ret u64 r3", "", "        m4():", "        r4 = const u64 2", "        ret u64 r4", "",
                  "        m5():", "        r5 = const u64 1", "        ret u64 r5", "", "        m6():", "        r6 = const u64 0", "        ret u64 r6"]
    else:
        lines += ["        z = const u64 0", "        ret u64 z"]
    lines.append("    }")
    for fname, variant in (("fa", "a"), ("fb", "b"), ("fc", "a")):
        lines.append(""); lines.append(fn_text(fname, c, variant))
    lines.append("}")
    return "\n".join(lines) + "\n"


def write_all(outdir):
    import os
    os.makedirs(outdir, exist_ok=True)
    paths = []
    for c in CASES:
        p = os.path.join(outdir, "pl_%s.ir" % c["name"])
        open(p, "w").write(module_text(c)); paths.append((c["name"], p))
    return paths


if __name__ == "__main__":
    import sys
    for n, p in write_all(sys.argv[1]): print(n, p)
