"""C26 generator: small std-free multi-module Sway library packages and edit histories.

A workspace is a dict  path -> Mod  (path "lib.sw", "a.sw", "a/c.sw", ...).  Every module renders
to `library;` text.  `closed=True` workspaces only let a module use items of its own (transitive)
submodules; otherwise siblings may `use` each other (the class excluded by C26's hypothesis)."""
import copy

TYPES = ["u64", "bool"]
LIT = {"u64": ["1", "2", "7"], "bool": ["true", "false"]}


class Mod:
    def __init__(self, name):
        self.name = name            # module name ("lib" for the root)
        self.mods = []              # child module names, in text order
        self.uses = []              # [(module path list e.g. ["a","c"], fn name)]
        self.fns = []               # [dict(name, ret, body)] body = ("lit", v) | ("call", fname) | ("letbad",) | ("let", fname)
        self.structs = []           # [(name, field type)]
        self.parse_err = False
        self.pad = 0                # trailing blank lines (whitespace-only edits)

    def render(self):
        o = ["library;"]
        for m in self.mods:
            o.append("pub mod %s;" % m)
        for p, f in self.uses:
            o.append("use ::%s::%s;" % ("::".join(p), f))
        for s, t in self.structs:
            o.append("pub struct %s {\n    pub x: %s,\n}" % (s, t))
        for f in self.fns:
            b = f["body"]
            if b[0] == "lit":
                body = "    %s" % b[1]
            elif b[0] == "call":
                body = "    %s()" % b[1]
            elif b[0] == "let":
                body = "    let v: %s = %s();\n    v" % (f["ret"], b[1])
            elif b[0] == "letbad":
                body = "    let w: bool = 5u64;\n    %s" % LIT[f["ret"]][0]
            elif b[0] == "mk":       # construct a struct and read its field
                body = "    let s = %s { x: %s };\n    s.x" % (b[1], b[2])
            o.append("pub fn %s() -> %s {\n%s\n}" % (f["name"], f["ret"], body))
        if self.parse_err:
            o.append("pub fn broken( -> u64 {")
        return "\n".join(o) + "\n" + "\n" * self.pad


def file_of(path):
    """module path list -> file path; [] is the root"""
    return "lib.sw" if not path else "/".join(path) + ".sw"


def gen_workspace(rng, closed):
    """returns {file: Mod}, plus the list of module paths in a tree"""
    names = ["a", "b", "c", "d", "e"]
    nmods = rng.randint(2, 4)
    paths = [[]]
    ws = {"lib.sw": Mod("lib")}
    for i in range(nmods):
        # parent: root mostly, sometimes an existing depth-1 module (nesting)
        cands = [p for p in paths if len(p) <= 1]
        parent = [] if rng.random() < 0.6 else rng.choice(cands)
        p = parent + [names[i]]
        paths.append(p)
        ws[file_of(p)] = Mod(names[i])
        ws[file_of(parent)].mods.append(names[i])
    # functions, bottom-up so that callers can import existing functions
    order = sorted(paths, key=lambda p: -len(p))
    ctr = [0]
    for p in order:
        m = ws[file_of(p)]
        for _ in range(rng.randint(1, 3)):
            ctr[0] += 1
            ret = rng.choice(TYPES)
            m.fns.append({"name": "f%d" % ctr[0], "ret": ret, "body": ("lit", rng.choice(LIT[ret]))})
        if rng.random() < 0.3:
            ctr[0] += 1
            t = rng.choice(TYPES)
            m.structs.append(("S%d" % ctr[0], t))
            m.fns.append({"name": "f%d" % ctr[0], "ret": t, "body": ("mk", "S%d" % ctr[0], LIT[t][0])})
    # imports + calls
    for p in order:
        m = ws[file_of(p)]
        for q in paths:
            if q == p or not q:
                continue
            is_desc = len(q) > len(p) and q[:len(p)] == p
            is_anc = len(q) < len(p) and p[:len(q)] == q
            if is_anc:
                continue
            if closed and not is_desc:
                continue
            # sibling imports only "forward" (towards earlier-named modules) to avoid cycles
            if not is_desc and not (q < p):
                continue
            if rng.random() < (0.8 if not closed else 0.7):
                src = ws[file_of(q)]
                if not src.fns:
                    continue
                f = rng.choice(src.fns)
                if any(u[1] == f["name"] for u in m.uses):
                    continue
                m.uses.append((q, f["name"]))
                ctr[0] += 1
                kind = rng.choice(["call", "let"])
                m.fns.append({"name": "f%d" % ctr[0], "ret": f["ret"], "body": (kind, f["name"])})
    return ws, paths


EDIT_KINDS = ["retype", "insert", "delete", "rename", "typeerr", "fixerr", "parseerr", "fixparse", "pad", "relit"]


def gen_edit(rng, ws, files, ctr):
    """mutates ws in place; returns (file, kind) or None"""
    for _ in range(20):
        f = rng.choice(files)
        m = ws[f]
        k = rng.choice(EDIT_KINDS)
        if k == "retype":
            c = [x for x in m.fns if x["body"][0] == "lit"]
            if not c:
                continue
            x = rng.choice(c)
            x["ret"] = "bool" if x["ret"] == "u64" else "u64"
            x["body"] = ("lit", rng.choice(LIT[x["ret"]]))
        elif k == "relit":
            c = [x for x in m.fns if x["body"][0] == "lit"]
            if not c:
                continue
            x = rng.choice(c)
            x["body"] = ("lit", rng.choice(LIT[x["ret"]]))
        elif k == "insert":
            ctr[0] += 1
            ret = rng.choice(TYPES)
            m.fns.insert(rng.randint(0, len(m.fns)), {"name": "n%d" % ctr[0], "ret": ret, "body": ("lit", rng.choice(LIT[ret]))})
        elif k == "delete":
            if not m.fns:
                continue
            m.fns.pop(rng.randrange(len(m.fns)))
        elif k == "rename":
            if not m.fns:
                continue
            ctr[0] += 1
            rng.choice(m.fns)["name"] = "r%d" % ctr[0]
        elif k == "typeerr":
            c = [x for x in m.fns if x["body"][0] == "lit"]
            if not c:
                continue
            rng.choice(c)["body"] = ("letbad",)
        elif k == "fixerr":
            c = [x for x in m.fns if x["body"][0] == "letbad"]
            if not c:
                continue
            x = rng.choice(c)
            x["body"] = ("lit", LIT[x["ret"]][0])
        elif k == "parseerr":
            if m.parse_err:
                continue
            m.parse_err = True
        elif k == "fixparse":
            if not m.parse_err:
                continue
            m.parse_err = False
        elif k == "pad":
            m.pad = (m.pad + 1) % 3
        return f, k
    return None


def gen_case(rng, cid, closed, nedits, gc=True, kinds=None):
    ws, paths = gen_workspace(rng, closed)
    files = {f: m.render() for f, m in ws.items()}
    open_files = sorted(files)
    rng.shuffle(open_files)
    steps, kinds_used = [], []
    ctr = [100]
    editable = sorted(files)
    for _ in range(nedits):
        e = gen_edit(rng, ws, editable, ctr)
        if e is None:
            break
        f, k = e
        steps.append({"f": f, "t": ws[f].render()})
        kinds_used.append(k)
        if rng.random() < 0.15:
            steps.append({"save": f})
            kinds_used.append("save")
    return {"id": cid, "gc": gc, "closed": closed, "files": files, "open": open_files, "steps": steps, "kinds": kinds_used,
            "tree": {file_of(p): [file_of(p + [c]) for c in ws[file_of(p)].mods] for p in paths},
            "uses": {file_of(p): sorted({file_of(q) for q, _ in ws[file_of(p)].uses}) for p in paths}}
