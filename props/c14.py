"""C14 — match exhaustiveness and reachability are exact.
Theorems: coq/C14/Props.v.  Tie: random pattern matrices over small finite types are type-checked by the real
compiler (harness bin c14 -> forc_pkg::check), accepted matches are executed on fuel-vm for every value of
the scrutinee type; diagnostics and run-time results are judged inside Coq (C14/Judge.v) against the
brute-force oracles (the property itself) and against the model of the usefulness algorithm."""
import os, re, json, concurrent.futures as cf
from vlib import coq, rust, sway
from vlib.core import NCPU

# ------------------------------------------------------------------ types
# ('bool',) ('u8',) ('tuple',[t]) ('enum',name,[(vname,t)]) ('struct',name,[(fname,t)])
UNIT = ('tuple', [])

def ty_sway(t):
    k = t[0]
    if k == 'bool': return 'bool'
    if k == 'u8': return 'u8'
    if k == 'tuple': return '(' + ', '.join(ty_sway(x) for x in t[1]) + ')'
    return t[1]

def ty_coq(t):
    k = t[0]
    if k == 'bool': return 'TBool'
    if k == 'u8': return '(TInt 255%N)'
    if k == 'tuple': return '(TTuple [%s])' % ';'.join(ty_coq(x) for x in t[1])
    if k == 'enum': return '(TEnum [%s])' % ';'.join(ty_coq(x) for _, x in t[2])
    return '(TTuple [%s])' % ';'.join(ty_coq(x) for _, x in t[2])

def ty_size(t, cap=10 ** 9):
    k = t[0]
    if k == 'bool': return 2
    if k == 'u8': return 256
    if k == 'enum': return min(cap, sum(ty_size(x) for _, x in t[2]))
    xs = t[1] if k == 'tuple' else [x for _, x in t[2]]
    n = 1
    for x in xs: n = min(cap, n * ty_size(x))
    return n

def decls_sway(decls):
    out = []
    for t in decls:
        if t[0] == 'enum':
            out.append('enum %s { %s }' % (t[1], ', '.join('%s: %s' % (v, ty_sway(x)) for v, x in t[2])))
        else:
            out.append('struct %s { %s }' % (t[1], ', '.join('%s: %s' % (f, ty_sway(x)) for f, x in t[2])))
    return '\n'.join(out)

def gen_decls(rng, tag):
    """a few enum/struct declarations; later ones may use earlier ones (no recursion => finite)."""
    decls = []
    def leaf(depth):
        r = rng.random()
        if r < 0.45: return ('bool',)
        if r < 0.62: return ('u8',)
        if r < 0.72: return UNIT
        if decls and r < 0.9 and depth < 2: return rng.choice(decls)
        if depth < 1: return ('tuple', [leaf(depth + 1) for _ in range(rng.choice([2, 2, 3]))])
        return ('bool',)
    for i in range(rng.randint(2, 4)):
        if rng.random() < 0.6:
            nv = rng.choice([1, 2, 2, 3, 3, 4])
            decls.append(('enum', 'E%s%d' % (tag, i), [('V%d' % j, leaf(0)) for j in range(nv)]))
        else:
            nf = rng.choice([1, 2, 2, 3])
            decls.append(('struct', 'S%s%d' % (tag, i), [('f%d' % j, leaf(0)) for j in range(nf)]))
    return decls

def gen_scrut_type(rng, decls):
    for _ in range(50):
        r = rng.random()
        if r < 0.12: t = ('bool',)
        elif r < 0.22: t = ('u8',)
        elif r < 0.6: t = rng.choice(decls)
        else:
            def el():
                q = rng.random()
                if q < 0.4: return ('bool',)
                if q < 0.55: return ('u8',)
                return rng.choice(decls)
            t = ('tuple', [el() for _ in range(rng.choice([2, 2, 3]))])
        n = ty_size(t)
        if n <= 600 or (n <= 70000 and rng.random() < 0.04):
            return t
    return ('bool',)

# ------------------------------------------------------------------ scrutinees
# ('wild',) ('var',name) ('bool',b) ('int',n,suffix) ('enum',k,p) ('tuple',[p]) ('struct',[(idx,p|None)],rest) ('or',[p])
LITS = [0, 1, 2, 3, 7, 254, 255]

def gen_pat(rng, t, depth, st, in_or=False):
    """st: {'nv': counter for fresh variable names}"""
    r = rng.random()
    k = t[0]
    wild_p = 0.22 if depth > 0 else 0.12
    if r < wild_p:
        if in_or or rng.random() < 0.6: return ('wild',)
        st['nv'] += 1
        return ('var', 'v%d' % st['nv'])
    if depth < 3 and not (k == 'tuple' and not t[1]) and r < wild_p + (0.18 if depth == 0 else 0.10):
        n = rng.choice([2, 2, 3])
        return ('or', [gen_pat(rng, t, depth + 1, st, True) for _ in range(n)])
    if k == 'bool': return ('bool', rng.random() < 0.5)
    if k == 'u8': return ('int', rng.choice(LITS[:4] if rng.random() < 0.7 else LITS), rng.random() < 0.5)
    if k == 'tuple': return ('tuple', [gen_pat(rng, x, depth + 1, st, in_or) for x in t[1]])
    if k == 'enum':
        i = rng.randrange(len(t[2]))
        return ('enum', i, gen_pat(rng, t[2][i][1], depth + 1, st, in_or))
    idxs = list(range(len(t[2])))
    rest = False
    if rng.random() < 0.35 and len(idxs) > 0:
        keep = rng.randint(0, len(idxs) - 1) if len(idxs) > 1 else rng.randint(0, 1)
        idxs = rng.sample(idxs, keep); rest = True
    if rng.random() < 0.4: rng.shuffle(idxs)
    fs = []
    for i in idxs:
        if not in_or and rng.random() < 0.1: fs.append((i, None))          # `f` binds a variable named f
        else: fs.append((i, gen_pat(rng, t[2][i][1], depth + 1, st, in_or)))
    return ('struct', fs, rest)

def pat_sway(p, t):
    k = p[0]
    if k == 'wild': return '_'
    if k == 'var': return p[1]
    if k == 'bool': return 'true' if p[1] else 'false'
    if k == 'int': return '%d%s' % (p[1], 'u8' if p[2] else '')
    if k == 'tuple': return '(' + ', '.join(pat_sway(x, tx) for x, tx in zip(p[1], t[1])) + ')'
    if k == 'enum':
        v, tv = t[2][p[1]]
        if tv == UNIT and p[2] == ('tuple', []): return '%s::%s' % (t[1], v)
        return '%s::%s(%s)' % (t[1], v, pat_sway(p[2], tv))
    if k == 'struct':
        parts = []
        for i, q in p[1]:
            f, tf = t[2][i]
            parts.append(f if q is None else '%s: %s' % (f, pat_sway(q, tf)))
        if p[2]: parts.append('..')
        return '%s { %s }' % (t[1], ', '.join(parts))
    return ' | '.join(pat_sway(x, t) for x in p[1])

def pat_coq(p, t):
    k = p[0]
    if k == 'wild': return 'SCatchAll'
    if k == 'var': return 'SVar'
    if k == 'bool': return '(SBool %s)' % ('true' if p[1] else 'false')
    if k == 'int': return '(SInt %d%%N)' % p[1]
    if k == 'tuple': return '(STuple [%s])' % ';'.join(pat_coq(x, tx) for x, tx in zip(p[1], t[1]))
    if k == 'enum': return '(SEnum %d %s)' % (p[1], pat_coq(p[2], t[2][p[1]][1]))
    if k == 'struct':
        return '(SStruct %d [%s])' % (len(t[2]), ';'.join(
            '(%d,%s)' % (i, 'None' if q is None else 'Some ' + pat_coq(q, t[2][i][1])) for i, q in p[1]))
    return '(SOr [%s])' % ';'.join(pat_coq(x, t) for x in p[1])

def pat_nontrivial(p):
    return p[0] not in ('wild', 'var')

# ------------------------------------------------------------------ values
def values(t, ints):
    k = t[0]
    if k == 'bool': return [('b', False), ('b', True)]
    if k == 'u8': return [('i', n) for n in ints]
    if k == 'enum':
        return [('e', i, v) for i, (_, tv) in enumerate(t[2]) for v in values(tv, ints)]
    xs = t[1] if k == 'tuple' else [x for _, x in t[2]]
    acc = [[]]
    for x in xs:
        vs = values(x, ints)
        acc = [a + [v] for a in acc for v in vs]
    return [('t', a) for a in acc]

def val_sway(v, t):
    if v[0] == 'b': return 'true' if v[1] else 'false'
    if v[0] == 'i': return '%du8' % v[1]
    if v[0] == 'e':
        vn, tv = t[2][v[1]]
        if tv == UNIT: return '%s::%s' % (t[1], vn)
        return '%s::%s(%s)' % (t[1], vn, val_sway(v[2], tv))
    if t[0] == 'tuple': return '(' + ', '.join(val_sway(x, tx) for x, tx in zip(v[1], t[1])) + ')'
    return '%s { %s }' % (t[1], ', '.join('%s: %s' % (f, val_sway(x, tf)) for x, (f, tf) in zip(v[1], t[2])))

def val_coq(v):
    if v[0] == 'b': return '(VBool %s)' % ('true' if v[1] else 'false')
    if v[0] == 'i': return '(VInt %d%%N)' % v[1]
    if v[0] == 'e': return '(VEnum %d %s)' % (v[1], val_coq(v[2]))
    return '(VTuple [%s])' % ';'.join(val_coq(x) for x in v[1])

def lits_of(p, acc):
    if p[0] == 'int': acc.add(p[1])
    elif p[0] in ('tuple', 'or'):
        for x in p[1]: lits_of(x, acc)
    elif p[0] == 'enum': lits_of(p[2], acc)
    elif p[0] == 'struct':
        for _, q in p[1]:
            if q is not None: lits_of(q, acc)

# ------------------------------------------------------------------ witness text -> Coq pat
class WParse(Exception): pass

def parse_witnesses(text, t):
    text = text.strip()
    if not text: return []
    if not (text.startswith('`') and text.endswith('`')): raise WParse(text)
    return [w for part in text[1:-1].split('`, `') for w in parse_top(part, t)]

def parse_top(s, t):
    toks = re.findall(r"\[|\]|\.\.\.|::|[(){},:|]|[A-Za-z_][A-Za-z0-9_]*|\d+", s)
    if ''.join(toks) != re.sub(r"\s+", "", s): raise WParse(s)
    pos = [0]
    def peek(): return toks[pos[0]] if pos[0] < len(toks) else None
    def eat(x=None):
        tk = peek()
        if tk is None or (x is not None and tk != x): raise WParse("%s: expected %s at %d" % (s, x, pos[0]))
        pos[0] += 1; return tk
    def p_or(t):
        alts = [p_atom(t)]
        while peek() == '|':
            eat(); alts.append(p_atom(t))
        return alts
    def wrap(alts): return alts[0] if len(alts) == 1 else 'POr [%s]' % ';'.join(alts)
    def p_atom(t):
        tk = peek()
        if tk == '_': eat(); return 'PWild'
        if tk in ('true', 'false'):
            if t[0] != 'bool': raise WParse("%s: bool pattern for %s" % (s, ty_sway(t)))
            eat(); return '(PBool %s)' % tk
        if tk is not None and tk.isdigit():
            if t[0] != 'u8': raise WParse("%s: int pattern for %s" % (s, ty_sway(t)))
            eat(); return '(PInt %s%%N %s%%N)' % (tk, tk)
        if tk == '[':
            if t[0] != 'u8': raise WParse("%s: range pattern for %s" % (s, ty_sway(t)))
            eat(); lo = eat(); eat('...'); hi = eat(); eat(']')
            lo = '0' if lo == 'MIN' else lo; hi = '255' if hi == 'MAX' else hi
            if not (lo.isdigit() and hi.isdigit()): raise WParse(s)
            return '(PInt %s%%N %s%%N)' % (lo, hi)
        if tk == '(':
            if t[0] != 'tuple': raise WParse("%s: tuple pattern for %s" % (s, ty_sway(t)))
            eat(); elems = []
            for i, tx in enumerate(t[1]):
                if i: eat(',')
                elems.append(wrap(p_or(tx)))
            eat(')')
            return '(PTuple [%s])' % ';'.join(elems)
        if t[0] == 'enum' and tk == t[1]:
            eat(); eat('::'); vn = eat()
            names = [v for v, _ in t[2]]
            if vn not in names: raise WParse("%s: variant %s" % (s, vn))
            k = names.index(vn)
            eat('('); inner = wrap(p_or(t[2][k][1])); eat(')')
            return '(PEnum %d %s)' % (k, inner)
        if t[0] == 'struct' and tk == t[1]:
            eat(); eat('{')
            fields = {}
            while peek() not in ('}', '...'):
                f = eat(); eat(':')
                names = [x for x, _ in t[2]]
                if f not in names or f in fields: raise WParse("%s: field %s" % (s, f))
                fields[f] = wrap(p_or(t[2][names.index(f)][1]))
                if peek() == ',': eat()
            if peek() == '...': eat()
            eat('}')
            return '(PTuple [%s])' % ';'.join(fields.get(f, 'PWild') for f, _ in t[2])
        raise WParse("%s: unexpected %r for %s" % (s, tk, ty_sway(t)))
    alts = p_or(t)
    if peek() is not None: raise WParse("%s: trailing %r" % (s, peek()))
    return alts

# ------------------------------------------------------------------ packages
class Case:
    __slots__ = ("t", "arms", "name", "match_line", "arm_lines", "pkg", "obs", "runs", "note")
    def key(self):
        return ("%s{%s}" % (ty_sway(self.t), ' ; '.join(pat_sway(a, self.t) for a in self.arms)))

def gen_case(rng, decls):
    t = gen_scrut_type(rng, decls)
    st = {'nv': 0}
    n = rng.choice([1, 2, 2, 3, 3, 4, 4, 5, 6])
    arms = [gen_pat(rng, t, 0, st) for _ in range(n)]
    r = rng.random()
    if r < 0.15: arms.append(('wild',))
    elif r < 0.22: arms.insert(rng.randrange(len(arms) + 1), ('var', 'w'))
    c = Case(); c.t = t; c.arms = arms; c.obs = None; c.runs = None; c.note = ""
    return c

def pkg_source(decls, cases):
    lines = ["library;", ""] + decls_sway(decls).split('\n') + [""]
    for i, c in enumerate(cases):
        c.name = "m%d" % i
        lines.append("pub fn %s(x: %s) -> u64 {" % (c.name, ty_sway(c.t)))
        lines.append("    match x {")
        c.match_line = len(lines)
        c.arm_lines = []
        for j, a in enumerate(c.arms):
            lines.append("        %s => %d," % (pat_sway(a, c.t), j + 1))
            c.arm_lines.append(len(lines))
        lines.append("    }")
        lines.append("}")
    return '\n'.join(lines) + '\n'

def run_values(c, limit=300):
    """values on which an accepted match is executed: the whole type when small, otherwise u8 leaves are
    restricted to the literals of the matrix, their neighbours and the end points"""
    if ty_size(c.t) <= limit:
        return values(c.t, range(256))
    ls = set()
    for a in c.arms: lits_of(a, ls)
    ints = sorted({0, 255} | ls | {min(255, x + 1) for x in ls} | {max(0, x - 1) for x in ls})
    vs = values(c.t, ints)
    return vs[:limit] if len(vs) > limit else vs

def test_source(decls, cases, lib_src):
    """lib source + one #[test] per accepted case logging the executed arm number for every value"""
    out = [lib_src, ""]
    for c in cases:
        vs = run_values(c)
        c.runs = [(v, None) for v in vs]
        out.append("#[test]\nfn t_%s() {" % c.name)
        for v in vs:
            out.append("    log(%s(%s));" % (c.name, val_sway(v, c.t)))
        out.append("}")
    return '\n'.join(out) + '\n'

CODES = {0: "agree", 2: "false-nonexhaustive", 3: "accepted-nonexhaustive", 4: "bad-witness", 5: "unreachable-warning-wrong",
         7: "runtime-not-first-match", 8: "compiler-internal-error", 10: "model-exhaustiveness-differs",
         11: "model-witness-differs", 12: "model-warnings-differ", 13: "model-error", 14: "model-out-of-fuel",
         15: "matcher-model-differs"}
VIOL = (2, 3, 4, 5, 7, 8)

CORPUS = [
    # regression shapes of the defects repaired in /repo (see design_notes/C14.md)
    ("tuple", ('tuple', [('bool',), ('bool',)]),
     [('tuple', [('bool', True), ('wild',)]), ('tuple', [('bool', False), ('wild',)]), ('tuple', [('wild',), ('bool', True)])]),
    ("interior", ('bool',), [('bool', True), ('bool', False), ('wild',), ('wild',)]),
    ("mixed", ('u8',), [('int', 0, True), ('int', 1, False), ('var', 'y'), ('int', 7, False)]),
    ("tt", ('tuple', [('bool',), ('bool',)]), [('tuple', [('bool', True), ('bool', True)]), ('tuple', [('bool', False), ('bool', False)])]),
    ("bu", ('tuple', [('bool',), ('u8',)]),
     [('tuple', [('var', 'a'), ('int', 1, True)]), ('tuple', [('bool', True), ('var', 'b')]), ('tuple', [('bool', False), ('int', 0, True)])]),
    ("u8full", ('u8',), [('int', n, n % 2 == 0) for n in range(256)]),
    ("u8all_but", ('u8',), [('int', n, False) for n in range(256) if n != 200]),
]

def corpus_cases():
    eb = ('enum', 'EC0', [('V0', ('bool',)), ('V1', ('bool',))])
    sb = ('struct', 'SC1', [('f0', ('bool',)), ('f1', ('bool',))])
    decls = [eb, sb]
    cs = []
    for _, t, arms in CORPUS:
        c = Case(); c.t = t; c.arms = arms; c.obs = None; c.runs = None; c.note = "corpus"; cs.append(c)
    extra = [
        (eb, [('or', [('enum', 0, ('bool', True)), ('enum', 1, ('bool', False))]), ('or', [('enum', 0, ('bool', True)), ('enum', 1, ('bool', True))])]),
        (sb, [('struct', [(0, ('bool', True)), (1, ('bool', False))], False), ('struct', [(1, ('bool', False)), (0, ('bool', True))], False), ('wild',)]),
        (sb, [('struct', [(0, ('bool', True)), (1, ('bool', False))], False), ('struct', [(1, ('bool', True)), (0, ('bool', False))], False), ('wild',)]),
        (sb, [('struct', [(0, ('bool', True)), (1, ('wild',))], False), ('struct', [(0, ('bool', False))], True), ('struct', [(1, ('bool', True))], True)]),
    ]
    for t, arms in extra:
        c = Case(); c.t = t; c.arms = arms; c.obs = None; c.runs = None; c.note = "corpus"; cs.append(c)
    return decls, cs

def run(ctx):
    ctx.level = "proof"
    ok, out = coq.check_props(ctx, "C14", extra_targets=["C14/Judge.vo"])
    if not ok:
        ctx.log(out[-3000:])
    binp, bout = rust.build("c14")
    if binp is None:
        ctx.violation("harness-build", {"log": bout[-4000:]}, "harness c14 does not build against /repo", no_input=True)
        return
    rng = ctx.rng
    npk = 10 if ctx.quick else 96
    per = 40 if ctx.quick else 40   # more than ~45 match functions per run package overflow the 2^12-word data section addressing of test packages
    base = os.path.join(ctx.work, "pkgs")
    pkgs = []           # (name, decls, cases, src)
    d0, c0 = corpus_cases()
    pkgs.append(("c14_corpus", d0, c0))
    for i in range(npk):
        decls = gen_decls(rng, "abcdefghijklmnopqrstuvwxyz"[i % 26].upper() + str(i // 26))
        pkgs.append(("c14_p%d" % i, decls, [gen_case(rng, decls) for _ in range(per)]))
    dirs = {}
    srcs = {}
    for name, decls, cases in pkgs:
        srcs[name] = pkg_source(decls, cases)
        dirs[name] = sway.write_pkg(base, name, {"lib.sw": srcs[name]})
        for c in cases: c.pkg = name

    def check_one(name):
        rc, o = rust.run(binp, [dirs[name]], timeout=900)
        for line in o.split("\n"):
            if line.startswith("{"):
                try: return name, json.loads(line)
                except Exception: pass
        return name, {"status": "harness_error", "error": "rc=%s %s" % (rc, o[-800:])}
    with cf.ThreadPoolExecutor(max_workers=NCPU) as ex:
        checked = dict(ex.map(check_one, [p[0] for p in pkgs]))

    ctx.log('type-checked %d packages' % len(pkgs))
    invalid = 0
    all_cases = []
    for name, decls, cases in pkgs:
        res = checked[name]
        if res.get("status") != "ok":
            if res.get("status") == "panic":
                ctx.violation("panic:" + name, {"pkg_source": srcs[name], "error": res.get("error", "")[:600]},
                              "the compiler panicked while type-checking generated match expressions: %s" % res.get("error", "")[:200])
            else:
                ctx.violation("harness-run", {"pkg": name, "res": str(res)[:1500]}, "harness c14 failed on a generated package", no_input=True)
            continue
        for c in cases:
            lo, hi = c.match_line - 1, c.arm_lines[-1] + 2
            errs = [e for e in res["errors"] if lo <= e["line"] <= hi]
            warns = [w for w in res["warnings"] if w["kind"] == "unreachable" and lo <= w["line"] <= hi]
            c.obs = {"nonexh": False, "wit": "", "warned": [False] * len(c.arms), "fail": None, "invalid": None}
            for e in errs:
                if e["kind"] == "nonexhaustive": c.obs["nonexh"] = True; c.obs["wit"] = e["missing"]
                elif e["kind"] == "internal": c.obs["fail"] = e["msg"]
                else: c.obs["invalid"] = e["msg"]
            for w in warns:
                if w["line"] in c.arm_lines: c.obs["warned"][c.arm_lines.index(w["line"])] = True
            if c.obs["invalid"]:
                invalid += 1; ctx.log("generator produced an invalid program: %s: %s" % (c.key(), c.obs["invalid"]))
                continue
            all_cases.append(c)
    if invalid > max(3, len(all_cases) // 50):
        ctx.violation("generator", {"invalid": invalid}, "too many generated matches are rejected for reasons other than exhaustiveness", no_input=True)

    # ---- run accepted matches on fuel-vm
    run_pkgs, lim = [], (6 if ctx.quick else 48)
    for name, decls, cases in pkgs:
        acc = [c for c in cases if c.obs and not c.obs["nonexh"] and not c.obs["fail"] and not c.obs["invalid"] and len(c.arms) < 100]
        if not acc or len(run_pkgs) >= lim: continue
        # the library must compile: keep only functions the compiler accepted
        keep = [c for c in cases if c in acc]
        src = pkg_source(decls, keep)          # renumbers names/lines of the kept cases (diagnostics already taken)
        tsrc = test_source(decls, keep, src)
        run_pkgs.append((sway.write_pkg(base, name + "_run", {"lib.sw": tsrc}), keep))
    if run_pkgs:
        results = sway.run_pkgs([d for d, _ in run_pkgs])
        for d, keep in run_pkgs:
            r = results[d]
            if r.get("status") != "ok":
                what = "accepted matches do not build/run: %s" % str(r.get("error", ""))[:300]
                if r.get("status") == "panic":
                    ctx.violation("run-panic:" + os.path.basename(d), {"pkg": d, "error": str(r.get("error"))[:800]}, what)
                else:
                    ctx.violation("run-build:" + os.path.basename(d), {"pkg": d, "error": str(r.get("error"))[:1500]}, what, no_input=True)
                for c in keep: c.runs = None
                continue
            tests = {t["name"]: t for t in r["tests"]}
            for c in keep:
                t = tests.get("t_" + c.name)
                logs = [int(x["data"], 16) for x in (t or {}).get("receipts", []) if x.get("k") == "LogData"]
                if t is None or not t["passed"] or len(logs) != len(c.runs):
                    # a revert / missing log: report what ran; the judge flags the first value without a result
                    logs = logs + [0] * (len(c.runs) - len(logs))
                c.runs = [(v, n) for (v, _), n in zip(c.runs, logs)]

    ctx.log('executed %d test packages' % len(run_pkgs))
    # ---- judge in Coq
    items, judged = [], []
    for c in all_cases:
        if c.obs["fail"]:
            obs = "IFail"
        else:
            try:
                wit = parse_witnesses(c.obs["wit"], c.t) if c.obs["nonexh"] else []
            except WParse as e:
                ctx.violation("witness:" + c.key()[:150], {"type": ty_sway(c.t), "arms": [pat_sway(a, c.t) for a in c.arms], "witness": c.obs["wit"]},
                              "reported witness is not a pattern of the scrutinee type: %s (%s)" % (c.obs["wit"], e))
                continue
            runs = c.runs if c.runs and all(n is not None for _, n in c.runs) else []
            obs = "(IRep %s [%s] [%s] [%s])" % ("true" if c.obs["nonexh"] else "false", ';'.join(wit),
                                               ';'.join("true" if w else "false" for w in c.obs["warned"]),
                                               ';'.join("(%s,%d%%N)" % (val_coq(v), n) for v, n in runs))
        items.append("(%s, [%s], %s)" % (ty_coq(c.t), ';'.join(pat_coq(a, c.t) for a in c.arms), obs))
        judged.append(c)
    # balance shards by value-space size
    order = sorted(range(len(items)), key=lambda i: -ty_size(judged[i].t, 10 ** 6) * (len(judged[i].arms) + 2))
    nsh = min(NCPU, max(1, len(items) // 20))
    buckets = [[] for _ in range(nsh)]; load = [0] * nsh
    for i in order:
        k = load.index(min(load)); buckets[k].append(i); load[k] += ty_size(judged[i].t, 10 ** 6) * (len(judged[i].arms) + 2) + 500
    shards = ["Definition cs : list (ty * list scrut * impl_obs) := [\n%s\n].\nEval vm_compute in (judge_all cs)."
              % ";\n".join(items[i] for i in b) for b in buckets if b]
    try:
        res = coq.run_cases(ctx, "c14", "From SwayV Require Import Base.Util C14.Model C14.Spec C14.Judge.", shards)
    except RuntimeError as e:
        ctx.violation("model-eval", {"log": str(e)[-3000:]}, "C14 model/judge could not be evaluated (correspondence not checked)", no_input=True)
        return
    codes = {}
    for b, sh_ in zip([b for b in buckets if b], res):
        assert len(sh_[0]) == len(b), (len(sh_[0]), len(b))
        for i, code in zip(b, sh_[0]): codes[i] = code
    ctx.log('judged %d cases' % len(judged))
    hist, corr = {}, []
    for i, c in enumerate(judged):
        code = codes[i]
        hist[CODES.get(code, str(code))] = hist.get(CODES.get(code, str(code)), 0) + 1
        rep = {"type": ty_sway(c.t), "arms": [pat_sway(a, c.t) for a in c.arms], "observed": {k: v for k, v in c.obs.items()},
               "package": c.pkg, "code": CODES.get(code, str(code))}
        if code in VIOL:
            ctx.violation(c.key()[:200], rep, "match over %s: %s (compiler: nonexhaustive=%s witness=%s warned=%s)" %
                          (ty_sway(c.t), CODES[code], c.obs["nonexh"], c.obs["wit"], c.obs["warned"]))
        elif code != 0:
            corr.append((c.key()[:200], rep, CODES.get(code, str(code))))
    for key, rep, what in corr[:5]:
        ctx.violation(key, dict(rep, correspondence="C14.corr/analyse"),
                      "model and compiler differ (%s) although the oracle accepts the compiler's answer; the C14 theorems are no longer tied to the code" % what,
                      no_input=True)
    if not ok:
        ctx.violation("proof", {"theorems": [o for o in ctx.obligations if not o[1]], "log": out[-2000:]}, "C14 proofs do not check", no_input=True)
    distinct = len({c.key() for c in judged if len(c.arms) >= 2 and any(pat_nontrivial(a) for a in c.arms)})
    nrun = sum(1 for c in judged if c.runs and all(n is not None for _, n in c.runs))
    ctx.coverage.update({
        "checker_cmd": "make -C coq C14/Props.vo (coqc 8.16.1) + coqc vm_compute of C14/Judge.v over harness output",
        "trusted_base": ["Coq 8.16.1 kernel + vm_compute", "harness/src/bin/c14.rs (forc_pkg::check, diagnostics to JSON), harness swayrun (fuel-vm execution)",
                         "props/c14.py (program text, mapping of diagnostics to arms by source line, witness text parser)",
                         "model = code tied by exact comparison of verdict, warned arms and witness value sets on the generated matrices"],
        "evaluations": len(judged), "distinct_nontrivial": distinct,
        "rule": "random match expressions over bool/u8/enums with payloads/tuples/structs (nested, <= 600 values, 4% up to 70000), 1-7 arms with literals, or-patterns, wildcards, bindings, struct rest/reordered fields; non-trivial = at least 2 arms and one non-catch-all arm; distinct by (type, arm texts)",
        "samples": [{"type": ty_sway(c.t), "arms": [pat_sway(a, c.t) for a in c.arms], "nonexhaustive": c.obs["nonexh"], "witness": c.obs["wit"],
                     "warned": c.obs["warned"]} for c in judged[len(c0):len(c0) + 4]],
        "judgements": hist, "executed_on_vm": nrun, "vm_calls": sum(len(c.runs) for c in judged if c.runs),
        "nonexhaustive_cases": sum(1 for c in judged if c.obs["nonexh"]), "cases_with_unreachable_arm": sum(1 for c in judged if any(c.obs["warned"])),
        "invalid_generated": invalid,
        "programs": len(pkgs), "disagreements_checked": len(judged),
    })
    ctx.assumptions += ["model = code is established by exact comparison on the generated matrices only",
                        "or-pattern distribution inside reported witnesses (serialize_multi_patterns) is compared by value set, not modelled",
                        "u8 stands for all integer widths in the compiled tests; the interval lemmas are proved for every bound"]
