"""C24 — LSP compilation scheduling neither hangs nor drops edits.
Theorems: coq/C24/Props.v (protocol model, all interleavings, any number of client events).
Tie: the real `ServerState` is run under a turnstile scheduler built on the sway-lsp verification
hook (harness/src/bin/c24.rs); every recorded trace is replayed through the Coq `step` relation
(C24/Judge.v, trace inclusion) and its final state is compared with what the server shows; the
three adversarial schedules that break the protocol as found are forced on the real server on
every run."""
import json, os, threading
from vlib import coq, rust
from vlib.core import ROOT, NCPU

ACC = {"recv": 1, "clr_rt0": 2, "compile": 4, "lcs": 5, "clr_ic": 6, "clr_rt": 7, "chk_empty": 8, "notify": 9,
       "write_doc": 10, "load_ic": 11, "set_rt": 12, "is_full": 13, "try_recv": 14, "send": 16,
       "set_ic_late": 17, "register": 18, "check": 19, "is_empty": 20, "await": 21, "woke": 22}
JCODES = {0: "accepted", 1: "access-vs-pc", 2: "model-thread-blocked", 3: "value-differs",
          4: "cancel-unexplained", 5: "completion-unexplained", 6: "bad-thread"}

# adversarial schedules (see coq/C24/Orig.v): thread 0 = compilation thread, k+1 = event k
SCRIPTS = [
    ("lost-wakeup-wait-for-parsing", "OR",
     ["s0", "1@check", "0@compile", "0", "w0", "0@clr_ic", "s1", "2@await", "0*", "2*", "1*"]),
    ("stale-retrigger-abort", "OC",
     ["s0", "1@check", "0@compile", "0", "w0", "0@clr_ic", "s1", "2@set_rt", "0*", "2*",
      "0@compile", "0", "w0", "0*", "1*"]),
    ("didopen-late-is-compiling-store", "O",
     ["s0", "1@set_ic_late", "0@compile", "0", "w0", "0*", "1*"]),
    # a pending didChange request is drained by didSave before the worker picks it up: the
    # replacement must still announce the edit (found by the thorough tier, fixed in /repo)
    ("drained-edit-request-version-lost", "OCS",
     ["s0", "1*", "0@compile", "0", "w0", "0*", "w1", "1*", "s1", "2*", "s2", "3*", "0@compile", "0", "w0", "0*", "w3", "3*"]),
    ("drained-edit-request-version-lost", "OCSR",
     ["s0", "1*", "0@compile", "0", "w0", "0@clr_ic", "s1", "2*", "s2", "3*", "s3", "4*", "0@compile", "0", "w0", "0*"]),
    # the same three with a second round of edits behind them
    ("lost-wakeup-wait-for-parsing", "ORCR",
     ["s0", "1@check", "0@compile", "0", "w0", "0@clr_ic", "s1", "2@await", "0*", "2*", "1*", "s2", "s3",
      "4@await", "3*", "0@compile", "0", "w0", "0@clr_ic", "4@await", "0*"]),
    ("stale-retrigger-abort", "OCS",
     ["s0", "1@check", "0@compile", "0", "w0", "0@clr_ic", "s1", "2@set_rt", "0*", "2*",
      "0@compile", "0", "w0", "0@clr_ic", "s2", "3@set_rt", "0*", "3*"]),
]


def coq_kinds(events):
    out = []
    for k, e in enumerate(events):
        out.append({"O": "KOpen", "C": "KChange %d" % k, "S": "KSave", "R": "KReq"}[e])
    return "[%s]" % "; ".join(out)


def coq_events(trace):
    """trace: [[tid, access, value], ...] -> Coq list of (nat * N * N); compile gets its outcome."""
    evs = []
    for n, (tid, acc, val) in enumerate(trace):
        if acc == "set_ic":
            code = 3 if tid == 0 else 15
        else:
            code = ACC.get(acc, 99)
        if acc == "compile":
            val = 1
            for t2, a2, v2 in trace[n + 1:]:
                if t2 == 0 and a2 == "lcs":
                    val = v2
                    break
        if val < 0:
            val = 0
        evs.append("(%d%%nat, %d, %d)" % (tid, code, val))
    return "[%s]" % "; ".join(evs)


def run_harness(binp, cases, nproc):
    shards = [cases[i::nproc] for i in range(nproc)]
    outs = [None] * nproc
    def work(i):
        if not shards[i]:
            outs[i] = (0, "")
            return
        w = os.path.join(ROOT, "work", "C24", "run%d" % i)
        os.makedirs(w, exist_ok=True)
        outs[i] = rust.run(binp, input="\n".join(json.dumps(c) for c in shards[i]) + "\n",
                           env={"C24_WORK": w, "C24_QUIET_MS": "5000"}, timeout=5000)
    ths = [threading.Thread(target=work, args=(i,)) for i in range(nproc)]
    for t in ths: t.start()
    for t in ths: t.join()
    res = {}
    for i in range(nproc):
        rc, text = outs[i]
        for l in text.split("\n"):
            l = l.strip()
            if l.startswith("{"):
                try:
                    r = json.loads(l)
                except ValueError:
                    continue
                res[r["id"]] = r
    return res


def run(ctx):
    ctx.level = "proof"
    ok, out = coq.check_props(ctx, "C24", extra_targets=["C24/Judge.vo"])
    if not ok:
        ctx.log(out[-3000:])
    binp, bout = rust.build("c24")
    if binp is None:
        ctx.violation("harness-build", {"log": bout[-4000:]}, "harness c24 does not build against /repo", no_input=True)
        return
    nrand = 70 if ctx.quick else 600
    maxev = 6 if ctx.quick else 12
    cases = []
    for n, (key, evs, script) in enumerate(SCRIPTS):
        cases.append({"id": "script%d" % n, "key": key, "events": evs, "mode": "script", "script": script})
    for n in range(nrand):
        k = ctx.rng.randint(2, maxev)
        evs = "O" + "".join(ctx.rng.choice("CCCSRR") for _ in range(k - 1))
        cases.append({"id": "rand%d" % n, "events": evs, "mode": "random", "seed": ctx.rng.randrange(1, 2 ** 40),
                      "pwait": ctx.rng.choice([0.0, 0.1, 0.3, 0.6])})
    res = run_harness(binp, cases, min(8, NCPU))
    missing = [c["id"] for c in cases if c["id"] not in res]
    if missing:
        ctx.violation("harness-run", {"missing": missing[:10]}, "harness c24 produced no result for %d cases" % len(missing), no_input=True)
        return
    # ---- property oracle on what the real server did -------------------------------------------
    stats = {"hung": 0, "stale": 0, "harness_err": 0, "cancelled_compilations": 0, "compilations": 0,
             "waits": 0, "drains": 0, "retriggers": 0, "failed_final_compilations": 0}
    items, order = [], []
    seen = set()
    for c in cases:
        r = res[c["id"]]
        tr = r["trace"]
        replay = {"events": c["events"], "mode": c["mode"], "script": c.get("script"), "seed": c.get("seed"),
                  "pwait": c.get("pwait"), "trace": " ".join("%d:%s" % (t, a) for t, a, _ in tr)[:1500]}
        if r.get("err"):
            stats["harness_err"] += 1
            ctx.violation("harness-run", dict(replay, err=r["err"]), "c24 scheduler lost control: %s" % r["err"], no_input=True)
            continue
        writes = [v for t, a, v in tr if a == "write_doc"]
        latest = writes[-1] if writes else 0
        stats["compilations"] += sum(1 for t, a, v in tr if a == "lcs")
        stats["cancelled_compilations"] += sum(1 for t, a, v in tr if a == "lcs" and v == 0)
        stats["waits"] += sum(1 for t, a, v in tr if a == "await")
        stats["drains"] += sum(1 for t, a, v in tr if a == "try_recv")
        stats["retriggers"] += sum(1 for t, a, v in tr if a == "set_rt")
        key = c.get("key")
        if r["hung"]:
            stats["hung"] += 1
            ctx.violation(key if key in ("lost-wakeup-wait-for-parsing", "didopen-late-is-compiling-store") else "hang-%s" % c["id"],
                          dict(replay, hung=r["hung"], is_compiling=r["is_compiling"]),
                          "client event(s) %s never return although no compilation is running or pending (events %s)" % (r["hung"], c["events"]))
        lcs_vals = [v for t, a, v in tr if a == "lcs"]
        final_res = lcs_vals[-1] if lcs_vals else -1
        if final_res in (2, 3):
            # The last compilation ran to the end on the latest text but failed inside the compiler
            # ("No Programs were returned", seen after a cancelled compilation). Not a scheduling
            # matter: recorded, not judged by (b).
            stats["failed_final_compilations"] += 1
            stats["last_failed_example"] = {"events": c["events"], "seed": c.get("seed"), "error": r.get("last_error", "")[:200]}
        elif final_res == 0 or r["marker"] != latest:
            stats["stale"] += 1
            ctx.violation(key if key in ("stale-retrigger-abort", "drained-edit-request-version-lost") else "stale-%s" % c["id"],
                          dict(replay, compiled_version=r["marker"], latest_version=latest),
                          "quiescent server answers from document version %s, the latest edit is version %s (events %s)" % (r["marker"], latest, c["events"]))
        seen.add((c["events"], tuple((t, a) for t, a, _ in tr)))
        items.append("(%s, %s)" % (coq_kinds(c["events"]), coq_events(tr)))
        order.append((c, r, writes, latest))
    # ---- trace inclusion, judged in Coq --------------------------------------------------------
    nsh = min(NCPU, max(1, len(items) // 20))
    per = (len(items) + nsh - 1) // nsh
    shards = []
    for k in range(nsh):
        chunk = items[k * per:(k + 1) * per]
        if chunk:
            shards.append("Definition cs : list (list kind * list (nat * N * N)) := [\n%s\n].\nEval vm_compute in (judge_all repaired cs)." % ";\n".join(chunk))
    try:
        jres = coq.run_cases(ctx, "c24", "From Coq Require Import List NArith.\nImport ListNotations.\nFrom SwayV Require Import C24.Model C24.Spec C24.Judge.\nOpen Scope N_scope.", shards)
    except RuntimeError as e:
        ctx.violation("model-eval", {"log": str(e)[-3000:]}, "C24 judge could not be evaluated (trace inclusion not checked)", no_input=True)
        return
    verdicts = [v for sh_ in jres for v in sh_[0]]
    assert len(verdicts) == len(order), (len(verdicts), len(order))
    hist, diffs = {}, []
    for (c, r, writes, latest), v in zip(order, verdicts):
        code, pos = v[0], v[1]
        hist[JCODES.get(code, str(code))] = hist.get(JCODES.get(code, str(code)), 0) + 1
        tr = r["trace"]
        rep = {"events": c["events"], "mode": c["mode"], "script": c.get("script"), "seed": c.get("seed"), "pwait": c.get("pwait")}
        if code != 0:
            at = tr[pos] if pos < len(tr) else None
            diffs.append((c["id"], dict(rep, rejected_at=pos, event=at, prefix=" ".join("%d:%s" % (t, a) for t, a, _ in tr[:pos + 1])[-600:]),
                          "model rejects the recorded trace (%s at event %d %s)" % (JCODES.get(code, code), pos, at)))
            continue
        settled, bad_a, bad_b, ic, chan, lo, hi, doc, jr, lcs = v[2:12]
        hstat = v[12:]
        why = []
        if not settled: why.append("model state not settled at the server's quiescence")
        if bool(ic) != r["is_compiling"]: why.append("is_compiling model=%s server=%s" % (ic, r["is_compiling"]))
        if chan != r["pending"]: why.append("queued requests model=%s server=%s" % (chan, r["pending"]))
        if doc != len(writes): why.append("document writes model=%s server=%s" % (doc, len(writes)))
        for i, hsv in enumerate(hstat):
            tid = i + 1
            obs = 1 if tid in r["hung"] else 0
            if hsv != obs: why.append("thread %d model status %s server %s" % (tid, hsv, "hung" if obs else "returned"))
        if jr == 1:
            widx = 0 if r["marker"] == 0 else (writes.index(r["marker"]) + 1 if r["marker"] in writes else -1)
            if not (lo <= widx <= hi): why.append("compiled version index %s outside model interval [%s,%s]" % (widx, lo, hi))
        if bad_a and not r["hung"]: why.append("model final state has a stuck waiter, server has none")
        if bad_b and r["marker"] == latest: why.append("model final state lost an edit, server did not")
        if why:
            diffs.append((c["id"], dict(rep, differences=why), "model and server disagree on the final state: " + "; ".join(why)))
    if diffs:
        for cid, rep, what in diffs[:5]:
            ctx.violation("trace-inclusion-%s" % cid, dict(rep, correspondence="C24.Judge.replay / repaired model"),
                          what + "; theorems C24_no_stuck_waiter / C24_no_lost_edit no longer tied to the code", no_input=True)
    if not ok:
        ctx.violation("proof", {"theorems": [o for o in ctx.obligations if not o[1]], "log": out[-2000:]},
                      "C24 proofs do not check", no_input=True)
    lens = [len(r["trace"]) for _, r, _, _ in order]
    nontrivial = {k for k in seen if len(k[1]) >= 25}
    samples = []
    for (c, r, writes, latest) in order[:2] + order[len(SCRIPTS):len(SCRIPTS) + 2]:
        samples.append({"events": c["events"], "mode": c["mode"], "steps": len(r["trace"]), "hung": r["hung"],
                        "compiled_version": r["marker"], "latest_version": latest,
                        "trace_head": " ".join("%d:%s" % (t, a) for t, a, _ in r["trace"][:40])})
    ctx.coverage.update({
        "checker_cmd": "make -C coq C24/Props.vo C24/Judge.vo (coqc 8.16.1) + coqc vm_compute judge_all over the traces printed by harness bin c24",
        "trusted_base": ["Coq 8.16.1 kernel + vm_compute",
                         "harness/src/bin/c24.rs (turnstile scheduler, trace recording, quiescence timeout 5 s for tokio wake-ups)",
                         "the cfg(fuellabs_sway_verif) points in sway-lsp sit immediately before each shared-state access (hook commit 60f8412 and the three fix commits)",
                         "tokio Notify (a Notified observes notify_waiters calls made after its creation) and crossbeam bounded(1) are modelled, not verified",
                         "sway-core's check_should_abort is modelled as 'polls retrigger at least once, at any time during the compilation'; it is not hooked"],
        "evaluations": len(order), "distinct_nontrivial": len(nontrivial),
        "rule": "one evaluation = one schedule of the real ServerState (didOpen first, then up to %d-1 of didChange/didSave/documentSymbol) under the turnstile, random thread choice per step (seeded) or forced script; distinct by (event string, sequence of (thread, access)); non-trivial = at least 25 protocol accesses" % maxev,
        "samples": samples,
        "trace_lengths": {"min": min(lens) if lens else 0, "max": max(lens) if lens else 0, "mean": (sum(lens) / len(lens)) if lens else 0},
        "server_behaviour": stats, "judge_verdicts": hist, "forced_scripts": [k for k, _, _ in SCRIPTS],
        "explanation": "Theorems: for the repaired protocol (all schedules, any number of events) a settled state has no un-notified waiter and its last completed compilation read the latest document; for the protocol as found three explicit schedules violate this (vm_compute), and each of the three repairs is shown necessary. Validation: every recorded trace of the real server is accepted by the model's step relation and the model's final state equals the server's observable state; the three refuting schedules, forced on the real server, hang / answer stale on the tree before the fixes (corpus/C24/orig_tree_repro.jsonl) and terminate fresh on the current tree.",
    })
    ctx.assumptions += ["interleaving semantics (all accesses are SeqCst atomics, channel operations and a parking_lot RwLock)",
                        "model = code is established by trace inclusion on the recorded schedules only",
                        "the two reads of wait_for_parsing's `&&` condition are recorded as one point (the scheduler cannot interleave between them; the model can)",
                        "requests before any didOpen (last_compilation_state Uninitialized for ever) are outside the property: (a) is stated for states in which a compilation has happened, which Coq proves to be every settled state after a handled notification"]
