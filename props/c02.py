"""C02 — optimization level never changes observable behaviour.   Level: other (partial).

 proved (coq/C02/Props.v): CONDITIONAL composition - if every IR pass of the O0 and O1 pipelines (lists re-read
   from sway-core/src/lib.rs + sway-ir/src/pass_manager.rs on every run), code generation and every asm
   optimisation preserve observable behaviour, then the debug and release builds are observationally equal; the asm
   round loop (MAX_OPT_ROUNDS, "never accept worse") returns an equivalent program.  All per-pass hypotheses are OPEN
   here (listed in evidence.coverage.open_hypotheses); C03/C06/C07 own the passes they model.
 decided on the implementation (sampled): every generated Frag program (shared with C01; C01's fresh run results
   are reused, otherwise a smaller batch is built) and a sample of e2e run scripts is built in debug and release
   and the observations (revert status, logged/returned data) are compared in Coq (C02.Judge); gas, code size
   and panic/backtrace metadata are dropped by the canonicaliser."""
import os, json, time, hashlib
from vlib import coq, sway
from vlib.core import REPO
from tools import facts_c01
from tools.gen import pipeline, shrink
from props import c01

HEADER = ("From Coq Require Import NArith List.\nImport ListNotations.\nLocal Open Scope N_scope.\n"
          "From SwayV Require Import Frag.Encode C01.Judge C02.Spec C02.Judge.")

def judge2(ctx, pairs):
    if not pairs: return []
    nsh = min(16, len(pairs))
    shards = [[] for _ in range(nsh)]
    for i, (d, r) in enumerate(pairs):
        shards[i % nsh].append("Eval vm_compute in (judge2 %s %s)." % (pipeline.cq_obs(d), pipeline.cq_obs(r)))
    res = coq.run_cases(ctx, "c02", HEADER, ["\n".join(s) for s in shards])
    out = [None] * len(pairs)
    for k, rs in enumerate(res):
        for j, r in enumerate(rs): out[k + j * nsh] = r
    return out

def minimise(ctx, g, budget_s):
    t0, cnt = time.time(), [0]
    def pred(p):
        if time.time() - t0 > budget_s: return False
        cnt[0] += 1
        d = sway.write_pkg(os.path.join(ctx.work, "shrink"), "s%d" % cnt[0], {"lib.sw": "library;\n\n" + p.sway()})
        r = pipeline.run_profiles({"x": d}, timeout=300, jobs=1)["x"]
        if r["debug"]["status"] != "ok" or r["release"]["status"] != "ok": return False
        return pipeline.observe(r["debug"]["tests"][0]) != pipeline.observe(r["release"]["tests"][0])
    return shrink.shrink(g.p, pred, batch=6, max_rounds=25, log=ctx.log)

def run(ctx):
    ctx.level = "other"
    stats = {}
    facts = c01.tgen(ctx)
    ok, out = coq.check_props(ctx, "C02", extra_targets=["C02/Judge.vo"])
    if not ok:
        ctx.log(out[-3000:])
        ctx.violation("proof", {"theorems": [o for o in ctx.obligations if not o[1]], "log": out[-2000:]},
                      "C02 composition theorem does not check against the regenerated pass lists", no_input=True)
    # --- runs: reuse C01's results when they are fresh and for the same tree, else a smaller batch
    cache = pipeline.load_cache(pipeline.cache_path(os.path.dirname(ctx.work), ctx.seed, ctx.tier))
    good = []
    if cache:
        stats["reused_c01_runs"] = True
        pkgs = pipeline.all_packages(cache["seed"], cache["npk"], cache["nprog"], ctx.tier)
        pkgs = [(n, g) for n, g in pkgs if n in cache["results"]]
        dirs = {n: os.path.join(os.path.dirname(ctx.work), "C01", "pkgs", n) for n, _ in pkgs}
        good, failures = c01.collect(ctx, pkgs, dirs, {n: cache["results"][n] for n, _ in pkgs}, stats)
        if failures:
            # C01 diagnosed them per program when it ran; here: rerun the failing packages' programs alone
            for g, d, rd, rr in c01.split_failures(ctx, failures, os.path.join(ctx.work, "pkgs"), stats, 600 if ctx.quick else 1800):
                o = c01.report_single(ctx, g, d, rd, rr, stats)
                if o: good.append((g, o[0], o[1]))
    else:
        stats["reused_c01_runs"] = False
        npk, nprog = (2, 24) if ctx.quick else (24, 60)
        ctx2_stats = {}
        good, _canon = c01.run_generated(ctx, npk, nprog, ctx2_stats, save=False)
        good = [x for x in good if x[0] is not _canon]
        stats.update(ctx2_stats)
    good = [x for x in good if x[0].p.name not in ("oob_canon", "dead_canon")]
    pairs, meta = [], []
    for g, od, orr in good:
        if isinstance(od[0], tuple) or isinstance(orr[0], tuple): continue
        pairs.append((od, orr)); meta.append(g)
    codes = judge2(ctx, pairs) if os.path.exists(os.path.join(coq.COQ, "C02", "Judge.vo")) else [0 if d == r else 1 for d, r in pairs]
    hist = {}
    for g, (od, orr), c in zip(meta, pairs, codes):
        nm = {0: "same", 1: "revert-status-differs", 2: "logged-data-differ"}.get(c, str(c))
        hist[nm] = hist.get(nm, 0) + 1
        if c == 0: continue
        small = g.p
        if stats.get("minimised", 0) < (1 if ctx.quick else 6):
            try:
                small = minimise(ctx, g, 100 if ctx.quick else 900); stats["minimised"] = stats.get("minimised", 0) + 1
            except Exception as e:
                ctx.log("minimiser failed: %r" % (e,))
        ssrc = small.sway()
        ctx.violation("debug-release-%s-%s" % (nm, hashlib.sha256(ssrc.encode()).hexdigest()[:10]),
                      {"program": ssrc, "original_program": g.p.sway() if small is not g.p else None,
                       "debug": {"revert": od[0], "logs": od[1]}, "release": {"revert": orr[0], "logs": orr[1]}},
                      "debug and release builds of a generated program behave differently: %s (debug revert=%s, release revert=%s)" % (nm, od[0], orr[0]))
    # the comparison with the maintainers' expected result is C01's subject; here only the profile differences
    e2e = c01.run_e2e(ctx, 6 if ctx.quick else 120, stats, check_expected=False)
    hyps = []
    if facts:
        names = []
        for p in facts["o0"] + facts["o1"]:
            if p not in names: names.append(p)
        hyps = ["Preserves %s" % p for p in names] + ["PreservesAsm %s" % a for a in facts["asm_passes"]] + ["LowerCorrect (IR -> asm code generation)"]
    distinct = {hashlib.sha256(g.p.coq().encode()).hexdigest() for g in meta if len(g.p.main) >= 3}
    ctx.coverage.update({
        "explanation": "PARTIAL / CONDITIONAL. The Coq theorem composes per-pass preservation hypotheses over the pass lists actually used by the "
                       "two profiles (regenerated from source); none of the hypotheses is discharged inside C02 (open_hypotheses). The decision on the "
                       "implementation is a differential run of generated programs and e2e scripts under both profiles; observable = revert status + "
                       "logged / returned data; gas, bytecode size and panic metadata are ignored.",
        "checker_cmd": "python3 tools/facts_c01.py; make -C coq C02/Props.vo C02/Judge.vo; swayrun [--release] / c01 e2e on fuel-vm; vm_compute judge2",
        "trusted_base": ["Coq 8.16.1 kernel + vm_compute", "tools/facts_c01.py (pass list extraction, shape-checked)", "harness swayrun/c01 + forc-test receipt extraction"],
        "open_hypotheses": hyps,
        "evaluations": len(pairs) + len(e2e), "distinct_nontrivial": len(distinct),
        "rule": "one evaluation = one program built and run under BOTH profiles and compared; distinct by Coq term of the program; non-trivial = >= 3 top-level statements",
        "samples": [{"program": g.p.sway()[:1200], "debug": {"revert": od[0], "logs": od[1][:5]}, "release": {"revert": orr[0], "logs": orr[1][:5]}}
                    for g, (od, orr) in list(zip(meta, pairs))[2:4]],
        "programs": len(pairs), "judgements": hist, "run_stats": stats, "pass_lists": facts,
        "e2e_scripts": [{"name": n, "debug": d, "release": r} for n, e, d, r in e2e[:40]],
    })
    ctx.assumptions += ["per-pass preservation (IR passes, code generation, asm optimisations) is assumed by the theorem, not proved here",
                        "a VM panic is observed as Revert(0); panic reason / pc / backtrace metadata are not compared",
                        "known finding shared with C01 and excluded: out-of-bounds run-time array index (undefined behaviour that differs between profiles)"]
