"""C27 — std collections and wide integers agree with reference models.
Theorems: coq/C27/Props.v (U128 add/sub/mul/div/mod/shifts/not/compare against Z-style arithmetic bounded by
2^128, for all operands; Vec refinement of list; sqrt/pow/log2 as far as proved - see design_notes/C27.md).
Correspondence + property on the implementation: generated library packages whose #[test] functions compute
one numeric operation on boundary-biased operands (through an #[inline(never)] identity) or run a random
operation sequence on Vec<u64> / Bytes / String, log every observable result, and are executed by the real
forc-test on fuel-vm; final state and logs are judged in Coq (C27/Judge.v) against the model M and the
reference S."""
import os, re, json
from vlib import coq, sway
from vlib.core import REPO

M64 = 2**64 - 1
P128 = 2**128
P256 = 2**256

# ------------------------------------------------------------------------------------------ facts
def facts():
    src = open(os.path.join(REPO, "sway-lib-std/src/error_signals.sw")).read()
    m = re.search(r"pub const FAILED_ASSERT_SIGNAL\s*=\s*(0x[0-9a-fA-F_]+)\s*;", src)
    if not m:
        raise RuntimeError("FAILED_ASSERT_SIGNAL not found in error_signals.sw")
    sig = int(m.group(1).replace("_", ""), 16)
    v = open(os.path.join(coq.COQ, "C27/NumModel.v")).read()
    m2 = re.search(r"Definition FAILED_ASSERT_SIGNAL : N := (\d+)\.", v)
    if not m2 or int(m2.group(1)) != sig:
        raise RuntimeError("FAILED_ASSERT_SIGNAL in error_signals.sw (%d) differs from C27/NumModel.v" % sig)
    return sig

# ------------------------------------------------------------------------------ operand generators
B64 = [0, 1, 2, 3, 7, 8, 63, 64, 65, 127, 128, 255, 256, 2**16 - 1, 2**16, 2**31, 2**32 - 1, 2**32, 2**32 + 1,
       2**63 - 1, 2**63, 2**63 + 1, 2**64 - 2, 2**64 - 1]

def rbits(rng, maxbits):
    b = rng.randint(0, maxbits)
    return rng.getrandbits(b) if b else 0

def rw(rng, w):
    """boundary-biased value below 2^w"""
    c = rng.random()
    if c < 0.45:
        cand = [0, 1, 2, 3, 2**w - 1, 2**w - 2, 2**(w - 1), 2**(w - 1) - 1, 2**(w - 1) + 1, 2**(w // 2), 2**(w // 2) - 1, 2**(w // 2) + 1]
        if w >= 128:
            cand += [2**64 - 1, 2**64, 2**64 + 1, 2**65, 2**96, 2**127, 2**127 - 1, 2**128 - 1 if w > 128 else 2**128 - 2]
        if w == 256:
            cand += [2**128, 2**128 + 1, 2**192, 2**192 - 1, 2**255]
        if w == 64:
            cand += B64
        return rng.choice(cand) % 2**w
    if c < 0.6:
        return rng.randrange(0, 1000) % 2**w
    if c < 0.75 and w >= 128:
        # limbs from the 64-bit boundary set
        v = 0
        for _ in range(w // 64):
            v = (v << 64) | rng.choice(B64)
        return v
    return rbits(rng, w)

def near(rng, x, w):
    return max(0, min(2**w - 1, x + rng.choice([-2, -1, 0, 0, 1, 2])))

def iroot_pair(rng, w, op):
    """operands biased to the overflow boundary of op"""
    a = rw(rng, w)
    top = 2**w - 1
    c = rng.random()
    if c < 0.5:
        return a, rw(rng, w)
    if op == "add":
        return a, near(rng, top - a, w)
    if op == "sub":
        return a, near(rng, a, w)
    if op == "mul":
        if a == 0: return a, rw(rng, w)
        return a, near(rng, top // a, w)
    return a, rw(rng, w)

def pow_args(rng, w):
    c = rng.random()
    if c < 0.25:
        return rw(rng, w), rng.choice([0, 1, 2, 3, 4])
    base = rng.choice([2, 3, 5, 7, 10, 255, 256, 65535, 65536, 2**32 - 1, 2**32, rng.randrange(2, 2000)]) % 2**w
    if base < 2: base = 2
    # exponent near the overflow boundary
    e = 0
    while base ** (e + 1) < 2**w: e += 1
    return base, max(0, e + rng.choice([-2, -1, 0, 0, 1, 1, 2, 5]))

def log_args(rng, w):
    c = rng.random()
    if c < 0.12:
        return rw(rng, w), rng.choice([0, 1, 2, 3])
    if c < 0.2:
        return rng.choice([0, 1, 2]), rw(rng, w)
    base = rng.choice([2, 2, 3, 5, 7, 9, 10, 16, 100, 255, 256, 2**16, 2**32 - 1, 2**32, 2**63, rng.randrange(2, 5000),
                       rbits(rng, w // 2) + 2]) % 2**w
    if base < 2: base = 2
    c = rng.random()
    if c < 0.45:
        x = rw(rng, w)
    else:
        kmax = 0
        while base ** (kmax + 1) < 2**w: kmax += 1
        k = rng.choice([kmax, kmax, rng.randint(0, kmax)])
        x = near(rng, base ** k, w)
    return x, base

def shift_amount(rng, w):
    return rng.choice([0, 1, 2, 31, 32, 33, 63, 64, 65, 95, 96, 127, 128, 129, 191, 192, 255, 256, 257, 2**32, 2**63, M64,
                       rng.randrange(0, w), rng.randrange(0, 2 * w)])

def limbs2(x): return [x >> 64, x & M64]

# ------------------------------------------------------------------------------ numeric test cases
# a case: dict(op=<Coq ctor>, args=[ints], body=<sway statement>, rev=<expected revert, for the attribute>)
def q(x):
    return "mk(%d, %d)" % (x >> 64, x & M64)

def y(x):
    return "mk256(%d, %d, %d, %d)" % ((x >> 192) & M64, (x >> 128) & M64, (x >> 64) & M64, x & M64)

def nw(w, x):
    return "idf(%d)" % x if w == 64 else "m%d(%d)" % (w, x)

def lw(w, e):
    return "log(%s);" % e if w == 64 else "log(%s.as_u64());" % e

def gen_numeric(rng, big_sqrt_budget):
    fam = rng.choice(["q"] * 9 + ["w"] * 5 + ["y"] * 5)
    if fam == "q":
        op = rng.choice(["QAdd", "QSub", "QMul", "QDiv", "QMod", "QDiv", "QMod", "QShl", "QShr", "QNot", "QLt", "QGt", "QEq",
                         "QAnd", "QOr", "QPow", "QPow", "QSqrt", "QLog2", "QLog", "QLog", "QLog"])
        if op in ("QAdd", "QSub", "QMul"):
            a, b = iroot_pair(rng, 128, op[1:].lower())
            sym = {"QAdd": "+", "QSub": "-", "QMul": "*"}[op]
            rev = {"QAdd": a + b >= P128, "QSub": a < b, "QMul": a * b >= P128}[op]
            return dict(op=op, args=limbs2(a) + limbs2(b), body="lg(%s %s %s);" % (q(a), sym, q(b)), rev=rev)
        if op in ("QDiv", "QMod"):
            a = rw(rng, 128)
            b = rng.choice([rw(rng, 128), rw(rng, 64), rw(rng, 128), near(rng, a, 128), near(rng, a // 2 + 1, 128), rng.choice([0, 1, 2, 3])])
            sym = "/" if op == "QDiv" else "%"
            return dict(op=op, args=limbs2(a) + limbs2(b), body="lg(%s %s %s);" % (q(a), sym, q(b)), rev=(b == 0))
        if op in ("QShl", "QShr"):
            a, s = rw(rng, 128), shift_amount(rng, 128)
            return dict(op=op, args=limbs2(a) + [s], body="lg(%s %s idf(%d));" % (q(a), "<<" if op == "QShl" else ">>", s), rev=False)
        if op == "QNot":
            a = rw(rng, 128)
            return dict(op=op, args=limbs2(a), body="lg(!%s);" % q(a), rev=False)
        if op in ("QLt", "QGt", "QEq", "QAnd", "QOr"):
            a = rw(rng, 128); b = rng.choice([rw(rng, 128), near(rng, a, 128), a, a ^ (1 << 64), (a >> 64 << 64) | rng.choice(B64)]) % P128
            sym = {"QLt": "<", "QGt": ">", "QEq": "==", "QAnd": "&", "QOr": "|"}[op]
            f = "lb" if op in ("QLt", "QGt", "QEq") else "lg"
            return dict(op=op, args=limbs2(a) + limbs2(b), body="%s(%s %s %s);" % (f, q(a), sym, q(b)), rev=False)
        if op == "QPow":
            a, e = pow_args(rng, 128)
            return dict(op=op, args=limbs2(a) + [e], body="lg(%s.pow(m32(%d)));" % (q(a), e), rev=(a ** e >= P128))
        if op == "QSqrt":
            if big_sqrt_budget[0] > 0 and rng.random() < 0.3:
                big_sqrt_budget[0] -= 1
                a = rw(rng, 128)
            else:
                a = rw(rng, 64) if rng.random() < 0.8 else rng.choice([2**64, 2**64 + 1, 2**65 - 1, 2**66])
            return dict(op=op, args=limbs2(a), body="lg(%s.sqrt());" % q(a), rev=(a == 0))
        if op == "QLog2":
            a = rw(rng, 128)
            return dict(op=op, args=limbs2(a), body="lg(%s.log2());" % q(a), rev=(a == 0))
        a, b = log_args(rng, 128)
        return dict(op="QLog", args=limbs2(a) + limbs2(b), body="lg(%s.log(%s));" % (q(a), q(b)), rev=(a == 0 or b < 2))
    if fam == "w":
        w = rng.choice([8, 16, 32, 64])
        op = rng.choice(["WAdd", "WSub", "WMul", "WPow", "WPow", "WSqrt", "WLog", "WLog2", "WWrapAdd", "WWrapSub", "WWrapMul"])
        if op in ("WAdd", "WSub", "WMul", "WWrapAdd", "WWrapSub", "WWrapMul"):
            kind = op[-3:].lower()
            a, b = iroot_pair(rng, w, kind)
            if op.startswith("WWrap"):
                return dict(op=op, args=[w, a, b], body=lw(w, "%s.wrapping_%s(%s)" % (nw(w, a), kind, nw(w, b))), rev=False)
            sym = {"add": "+", "sub": "-", "mul": "*"}[kind]
            rev = {"add": a + b >= 2**w, "sub": a < b, "mul": a * b >= 2**w}[kind]
            return dict(op=op, args=[w, a, b], body=lw(w, "(%s %s %s)" % (nw(w, a), sym, nw(w, b))), rev=rev)
        if op == "WPow":
            a, e = pow_args(rng, w)
            return dict(op=op, args=[w, a, e], body=lw(w, "%s.pow(m32(%d))" % (nw(w, a), e)), rev=(a ** e >= 2**w))
        if op == "WSqrt":
            a = rng.choice([rw(rng, w), near(rng, rbits(rng, w // 2) ** 2, w)])
            return dict(op=op, args=[w, a], body=lw(w, "%s.sqrt()" % nw(w, a)), rev=False)
        if op == "WLog":
            a, b = log_args(rng, w)
            return dict(op=op, args=[w, a, b], body=lw(w, "%s.log(%s)" % (nw(w, a), nw(w, b))), rev=(a == 0 or b < 2))
        a = rw(rng, w)
        return dict(op="WLog2", args=[w, a], body=lw(w, "%s.log2()" % nw(w, a)), rev=(a == 0))
    op = rng.choice(["YAdd", "YSub", "YMul", "YDiv", "YMod", "YShl", "YShr", "YPow", "YPow", "YSqrt", "YLog2", "YLog", "YLog",
                     "YWrapAdd", "YWrapSub", "YWrapMul"])
    if op in ("YAdd", "YSub", "YMul", "YWrapAdd", "YWrapSub", "YWrapMul"):
        kind = op[-3:].lower()
        a, b = iroot_pair(rng, 256, kind)
        if op.startswith("YWrap"):
            return dict(op=op, args=[a, b], body="log(%s.wrapping_%s(%s));" % (y(a), kind, y(b)), rev=False)
        sym = {"add": "+", "sub": "-", "mul": "*"}[kind]
        rev = {"add": a + b >= P256, "sub": a < b, "mul": a * b >= P256}[kind]
        return dict(op=op, args=[a, b], body="log(%s %s %s);" % (y(a), sym, y(b)), rev=rev)
    if op in ("YDiv", "YMod"):
        a = rw(rng, 256); b = rng.choice([rw(rng, 256), rw(rng, 128), rw(rng, 64), near(rng, a, 256), 0, 1])
        return dict(op=op, args=[a, b], body="log(%s %s %s);" % (y(a), "/" if op == "YDiv" else "%", y(b)), rev=(b == 0))
    if op in ("YShl", "YShr"):
        a, s = rw(rng, 256), shift_amount(rng, 256)
        return dict(op=op, args=[a, s], body="log(%s %s idf(%d));" % (y(a), "<<" if op == "YShl" else ">>", s), rev=False)
    if op == "YPow":
        a, e = pow_args(rng, 256)
        return dict(op=op, args=[a, e], body="log(%s.pow(m32(%d)));" % (y(a), e), rev=(a ** e >= P256))
    if op == "YSqrt":
        a = rng.choice([rw(rng, 256), near(rng, rbits(rng, 128) ** 2, 256)])
        return dict(op=op, args=[a], body="log(%s.sqrt());" % y(a), rev=False)
    if op == "YLog2":
        a = rw(rng, 256)
        return dict(op=op, args=[a], body="log(%s.log2());" % y(a), rev=(a == 0))
    a, b = log_args(rng, 256)
    return dict(op="YLog", args=[a, b], body="log(%s.log(%s));" % (y(a), y(b)), rev=(a == 0 or b < 2))

NUM_PRELUDE = """library;
use std::u128::U128;
use std::math::*;

#[inline(never)]
fn idf(x: u64) -> u64 { x }
fn m8(x: u64) -> u8 { asm(r: idf(x)) { r: u8 } }
fn m16(x: u64) -> u16 { asm(r: idf(x)) { r: u16 } }
fn m32(x: u64) -> u32 { asm(r: idf(x)) { r: u32 } }
fn mk(u: u64, l: u64) -> U128 { U128::from((idf(u), idf(l))) }
fn mk256(a: u64, b: u64, c: u64, d: u64) -> u256 { u256::from((idf(a), idf(b), idf(c), idf(d))) }
fn lg(x: U128) { log(x.upper()); log(x.lower()); }
fn lb(x: bool) { if x { log(1u64); } else { log(0u64); } }
"""

# corpus: the cases that matter most (limb boundaries, known finding, documented reverts)
def corpus_numeric():
    C = []
    def add(op, args, body, rev): C.append(dict(op=op, args=args, body=body, rev=rev))
    mx = P128 - 1
    for a, b in [(mx, 1), (mx, 0), (M64, 1), (2**64, M64), (2**127, 2**127), (2**127, 2**127 - 1), (0, 0)]:
        add("QAdd", limbs2(a) + limbs2(b), "lg(%s + %s);" % (q(a), q(b)), a + b >= P128)
    for a, b in [(0, 1), (2**64, 1), (2**64, 2**64 + 1), (mx, mx), (2**127, 1), (1, 0)]:
        add("QSub", limbs2(a) + limbs2(b), "lg(%s - %s);" % (q(a), q(b)), a < b)
    for a, b in [(2**64, 2**64), (M64, M64), (M64, 2**64 + 1), (2**64 + 1, M64), (2**127, 2), (2**127 - 1, 2), (mx, 1), (2**64 - 1, 2**64)]:
        add("QMul", limbs2(a) + limbs2(b), "lg(%s * %s);" % (q(a), q(b)), a * b >= P128)
    for a, b in [(mx, 2**127 + 1), (mx, 0), (0, 0), (mx, 1), (mx, mx), (2**64, 3), (7, 2**64), (mx, 2**64 - 1), (2**127, 2**64 + 1)]:
        add("QDiv", limbs2(a) + limbs2(b), "lg(%s / %s);" % (q(a), q(b)), b == 0)
        add("QMod", limbs2(a) + limbs2(b), "lg(%s %% %s);" % (q(a), q(b)), b == 0)
    for a, s in [((1 << 64) | (2**63 + 1), 0), ((1 << 64) | (2**63 + 1), 1), ((1 << 64) | (2**63 + 1), 63), (mx, 64), (mx, 65), (mx, 127), (mx, 128), (mx, M64)]:
        add("QShl", limbs2(a) + [s], "lg(%s << idf(%d));" % (q(a), s), False)
        add("QShr", limbs2(a) + [s], "lg(%s >> idf(%d));" % (q(a), s), False)
    for a, b in [(2**127, 3), (mx, 10), (mx, 9), (2**68, 7), (mx, 2), (2**64, 9), (100, 10), (5, 1), (0, 3), (2, 3), (mx, (2**43 - 1))]:
        add("QLog", limbs2(a) + limbs2(b), "lg(%s.log(%s));" % (q(a), q(b)), a == 0 or b < 2)
    for a in [0, 1, 2, 3, 4, 15, 16, 17, M64, 2**64, mx, 2**126]:
        add("QSqrt", limbs2(a), "lg(%s.sqrt());" % q(a), a == 0)
    for a, e in [(3, 80), (3, 81), (2, 127), (2, 128), (2**64, 2), (2**64 - 1, 2), (2**43 - 1, 3), (0, 0), (mx, 1), (mx, 2), (10, 38), (10, 39)]:
        add("QPow", limbs2(a) + [e], "lg(%s.pow(m32(%d)));" % (q(a), e), a ** e >= P128)
    for a, b in [(2**255, 3), (P256 - 1, 10), (2**200, 7), (0, 3), (5, 1)]:
        add("YLog", [a, b], "log(%s.log(%s));" % (y(a), y(b)), a == 0 or b < 2)
    for a in [0, 1, P256 - 1, 2**128, 2**128 - 1]:
        add("YSqrt", [a], "log(%s.sqrt());" % y(a), False)
    return C

def sway_numeric(cases):
    out = [NUM_PRELUDE]
    for i, c in enumerate(cases):
        out.append("%s\nfn n%04d() { %s }\n" % ("#[test(should_revert)]" if c["rev"] else "#[test]", i, c["body"]))
    return "\n".join(out)

def coq_num_case(c, reverted, code, logs):
    return "Eval vm_compute in (judge_num %s [%s]%%N %s %d%%N [%s]%%N)." % (
        c["op"], ";".join(map(str, c["args"])), "true" if reverted else "false", code, ";".join(map(str, logs)))

# ---------------------------------------------------------------------------- collection test cases
COLL_PRELUDE = """library;
use std::bytes::Bytes;
use std::string::String;

#[inline(never)]
fn idf(x: u64) -> u64 { x }
fn m8(x: u64) -> u8 { asm(r: idf(x)) { r: u8 } }
fn lb(x: bool) { if x { log(1u64); } else { log(0u64); } }
fn lo(o: Option<u64>) { match o { Some(v) => { log(1u64); log(v); }, None => { log(0u64); log(0u64); } } }
fn lo8(o: Option<u8>) { match o { Some(v) => { log(1u64); log(v.as_u64()); }, None => { log(0u64); log(0u64); } } }
fn dv(v: Vec<u64>) { log(v.len()); log(v.capacity()); let mut i = 0; while i < v.len() { log(v.get(i).unwrap()); i += 1; } }
fn dc(b: Bytes) { let mut i = 0; while i < b.len() { log(b.get(i).unwrap().as_u64()); i += 1; } }
fn db(b: Bytes) { log(b.len()); log(b.capacity()); dc(b); }
"""

def gen_coll(rng, kind, maxlen):
    """kind: 'vec' | 'bytes'. Returns (ops, sway lines, expected-revert). ops = Coq cop terms."""
    n = rng.randint(1, maxlen)
    bad_at = rng.randrange(n) if rng.random() < 0.12 else None
    sim = []
    ops, lines = [], []
    vmax = 2**64 if kind == "vec" else 256
    def val():
        return rng.choice([0, 1, vmax - 1, rng.randrange(vmax), rng.randrange(min(vmax, 100))])
    def lit(x):
        return "idf(%d)" % x if kind == "vec" else "m8(%d)" % x
    def lopt(e):
        return ("lo(%s);" if kind == "vec" else "lo8(%s);") % e
    rev = False
    for k in range(n):
        L = len(sim)
        bad = bad_at == k
        choices = ["push"] * 6 + ["pop", "get", "get", "len", "cap", "isempty"] + (["last"] if kind == "vec" else [])
        if L > 0: choices += ["set", "insert", "insert", "remove", "remove", "swap"]
        else: choices += ["insert"]
        choices += ["clear"] if rng.random() < 0.15 else []
        if kind == "bytes": choices += ["resize", "append", "append", "split", "string"]
        if bad: choices = ["set", "insert", "remove", "swap"] + (["split"] if kind == "bytes" else [])
        o = rng.choice(choices)
        if o == "push":
            x = val(); sim.append(x); ops.append("CV (VPush %d)" % x); lines.append("v.push(%s);" % lit(x))
        elif o == "pop":
            if sim: sim.pop()
            ops.append("CV VPop"); lines.append(lopt("v.pop()"))
        elif o == "get":
            i = rng.choice([0, max(L - 1, 0), L, L + 1, rng.randrange(L + 2), 2**64 - 1])
            ops.append("CV (VGet %d)" % i); lines.append(lopt("v.get(idf(%d))" % i))
        elif o == "len": ops.append("CV VLen"); lines.append("log(v.len());")
        elif o == "cap": ops.append("CV VCap"); lines.append("log(v.capacity());")
        elif o == "isempty": ops.append("CV VIsEmpty"); lines.append("lb(v.is_empty());")
        elif o == "last": ops.append("CV VLast"); lines.append("lo(v.last());")
        elif o == "clear": sim.clear(); ops.append("CV VClear"); lines.append("v.clear();")
        elif o == "set":
            i = rng.choice([L, L + 1, 2**64 - 1]) if bad else rng.randrange(L)
            x = val(); ops.append("CV (VSet %d %d)" % (i, x)); lines.append("v.set(idf(%d), %s);" % (i, lit(x)))
            if i < L: sim[i] = x
            else: rev = True
        elif o == "insert":
            i = rng.choice([L + 1, L + 2, 2**64 - 1]) if bad else rng.choice([0, L, rng.randrange(L + 1)])
            x = val(); ops.append("CV (VInsert %d %d)" % (i, x)); lines.append("v.insert(idf(%d), %s);" % (i, lit(x)))
            if i <= L: sim.insert(i, x)
            else: rev = True
        elif o == "remove":
            i = rng.choice([L, L + 1, 2**64 - 1]) if bad else rng.choice([0, L - 1, rng.randrange(L)])
            ops.append("CV (VRemove %d)" % i)
            lines.append("log(v.remove(idf(%d))%s);" % (i, "" if kind == "vec" else ".as_u64()"))
            if i < L: sim.pop(i)
            else: rev = True
        elif o == "swap":
            if bad:
                i, j = rng.choice([(L, 0), (0, L), (L + 3, L + 3), (2**64 - 1, 0)])
            else:
                i, j = rng.randrange(L), rng.randrange(L)
            ops.append("CV (VSwap %d %d)" % (i, j)); lines.append("v.swap(idf(%d), idf(%d));" % (i, j))
            if i < L and j < L: sim[i], sim[j] = sim[j], sim[i]
            else: rev = True
        elif o == "resize":
            m = rng.choice([0, L, max(L - 1, 0), L + 1, L + rng.randrange(6), rng.randrange(2 * L + 2)]); x = val()
            ops.append("CResize %d %d" % (m, x)); lines.append("v.resize(idf(%d), %s);" % (m, lit(x)))
            sim[:] = sim[:m] if m <= L else sim + [x] * (m - L)
        elif o == "append":
            other = [val() for _ in range(rng.choice([0, 1, 2, 3, rng.randrange(7)]))]
            ops.append("CAppend [%s]" % ";".join(map(str, other)))
            lines.append("{ let mut o = Bytes::new(); %s log(o.len()); log(o.capacity()); v.append(o); }" % " ".join("o.push(%s);" % lit(x) for x in other))
            sim.extend(other)
        elif o == "split":
            mid = rng.choice([L + 1, L + 2]) if bad else rng.choice([0, L, rng.randrange(L + 1)])
            ops.append("CSplitAt %d" % mid); lines.append("{ let (l, r) = v.split_at(idf(%d)); db(l); db(r); }" % mid)
            if mid > L: rev = True
        elif o == "string":
            ops.append("CString")
            lines.append("{ let s = String::from_ascii(v); log(s.len()); log(s.capacity()); lb(s.is_empty()); dc(s.as_bytes()); }")
        if rev:
            break
    lines.append("dv(v);" if kind == "vec" else "db(v);")
    return ops, lines, rev

def corpus_coll():
    C = []
    C.append(("vec", ["CV (VPush 5)", "CV (VPush 6)", "CV (VPush 7)", "CV (VInsert 1 9)", "CV VCap", "CV VLen", "CV (VRemove 0)",
                      "CV (VSwap 0 2)", "CV VPop", "CV VLast", "CV (VGet 1)", "CV (VGet 7)", "CV (VSet 0 4)", "CV (VInsert 3 1)"],
              ["v.push(idf(5));", "v.push(idf(6));", "v.push(idf(7));", "v.insert(idf(1), idf(9));", "log(v.capacity());", "log(v.len());",
               "log(v.remove(idf(0)));", "v.swap(idf(0), idf(2));", "lo(v.pop());", "lo(v.last());", "lo(v.get(idf(1)));",
               "lo(v.get(idf(7)));", "v.set(idf(0), idf(4));", "v.insert(idf(3), idf(1));", "dv(v);"], False))
    for op, line in [("CV (VRemove 0)", "log(v.remove(idf(0)));"), ("CV (VSet 0 1)", "v.set(idf(0), idf(1));"),
                     ("CV (VInsert 1 1)", "v.insert(idf(1), idf(1));"), ("CV (VSwap 0 0)", "v.swap(idf(0), idf(0));")]:
        C.append(("vec", [op], [line, "dv(v);"], True))
    C.append(("vec", ["CV VPop", "CV VLast", "CV (VGet 0)", "CV VIsEmpty", "CV VCap", "CV (VInsert 0 3)", "CV VCap"],
              ["lo(v.pop());", "lo(v.last());", "lo(v.get(idf(0)));", "lb(v.is_empty());", "log(v.capacity());", "v.insert(idf(0), idf(3));",
               "log(v.capacity());", "dv(v);"], False))
    C.append(("bytes", ["CV (VPush 1)", "CV (VPush 2)", "CV (VPush 3)", "CSplitAt 1", "CAppend [7;8]", "CResize 7 9", "CString", "CSplitAt 8"],
              ["v.push(m8(1));", "v.push(m8(2));", "v.push(m8(3));", "{ let (l, r) = v.split_at(idf(1)); db(l); db(r); }",
               "{ let mut o = Bytes::new(); o.push(m8(7)); o.push(m8(8)); log(o.len()); log(o.capacity()); v.append(o); }",
               "v.resize(idf(7), m8(9));",
               "{ let s = String::from_ascii(v); log(s.len()); log(s.capacity()); lb(s.is_empty()); dc(s.as_bytes()); }",
               "{ let (l, r) = v.split_at(idf(8)); db(l); db(r); }", "db(v);"], True))
    return C

def sway_coll(cases):
    out = [COLL_PRELUDE]
    for i, (kind, ops, lines, rev) in enumerate(cases):
        decl = "let mut v: Vec<u64> = Vec::new();" if kind == "vec" else "let mut v = Bytes::new();"
        out.append("%s\nfn c%04d() {\n    %s\n    %s\n}\n" % ("#[test(should_revert)]" if rev else "#[test]", i, decl, "\n    ".join(lines)))
    return "\n".join(out)

def coq_coll_case(ops, reverted, code, logs):
    return "Eval vm_compute in (judge_coll [%s]%%N %s %d%%N [%s]%%N)." % (
        "; ".join(ops), "true" if reverted else "false", code, ";".join(map(str, logs)))

# ------------------------------------------------------------------------------------------ run
CODES = {0: "ok", 1: "model-differs", 2: "reference-rejects", 5: "known-class", 7: "model-out-of-fuel"}

def parse_state(s):
    if s.startswith("Revert("):
        return True, int(s[7:-1])
    if s.startswith("Return"):
        return False, 0
    return None

def run(ctx):
    ctx.level = "proof"
    ok, out = coq.check_props(ctx, "C27", extra_targets=["C27/Judge.vo"])
    if not ok:
        ctx.log(out[-3000:])
        ctx.violation("proof", {"theorems": [o for o in ctx.obligations if not o[1]], "log": out[-2000:]}, "C27 proofs do not check", no_input=True)
    ctx.log('proofs checked: %s' % ok)
    try:
        facts()
    except Exception as e:
        ctx.violation("tgen", {"error": str(e)}, "C27.tgen: cannot regenerate facts from source: %s" % e, no_input=True)
        return
    rng = ctx.rng
    n_num, n_coll = (4, 3) if ctx.quick else (40, 24)
    per_num, per_coll = (220, 110) if ctx.quick else (250, 150)
    maxlen = 30 if ctx.quick else 60
    base = os.path.join(ctx.work, "pkgs")
    pkgs = []       # (dir, kind, cases)
    for k in range(n_num):
        budget = [3]
        cases = corpus_numeric() if k == 0 else []
        while len(cases) < per_num:
            cases.append(gen_numeric(rng, budget))
        name = "c27n%03d" % k
        pkgs.append((sway.write_pkg(base, name, {"lib.sw": sway_numeric(cases)}), "num", cases))
    for k in range(n_coll):
        cases = corpus_coll() if k == 0 else []
        while len(cases) < per_coll:
            kind = "vec" if (len(cases) + k) % 2 == 0 else "bytes"
            ops, lines, rev = gen_coll(rng, kind, maxlen)
            cases.append((kind, ops, lines, rev))
        name = "c27c%03d" % k
        pkgs.append((sway.write_pkg(base, name, {"lib.sw": sway_coll(cases)}), "coll", cases))
    res = {}
    dirs = [p[0] for p in pkgs]
    for i in range(0, len(dirs), 32):
        res.update(sway.run_pkgs(dirs[i:i + 32]))
    ctx.log('ran %d packages' % len(dirs))
    items, meta = [], []
    stats = {}
    for d, kind, cases in pkgs:
        r = res[d]
        if r["status"] != "ok":
            stats[r["status"]] = stats.get(r["status"], 0) + 1
            ctx.violation("pkg-" + r["status"], {"package": d, "error": r.get("error", "")[:3000]},
                          "forc test %s on generated package %s: %s" % (r["status"], d, r.get("error", "")[:300]),
                          no_input=(r["status"] != "panic"))
            continue
        byname = {t["name"]: t for t in r["tests"]}
        for i, c in enumerate(cases):
            tname = ("n%04d" if kind == "num" else "c%04d") % i
            t = byname.get(tname)
            st = parse_state(t["state"]) if t else None
            if st is None:
                ctx.violation("missing-test", {"package": d, "test": tname, "observed": t}, "test missing or unparsable state in forc-test output", no_input=True)
                continue
            logs = [int(rc["data"] or "0", 16) for rc in t["receipts"] if rc["k"] == "LogData"]
            if kind == "num":
                items.append(coq_num_case(c, st[0], st[1], logs))
                meta.append((d, tname, "num", {"op": c["op"], "args": [str(a) for a in c["args"]], "sway": c["body"]}, t["state"], logs))
            else:
                items.append(coq_coll_case(c[1], st[0], st[1], logs))
                meta.append((d, tname, c[0], {"ops": c[1], "sway": c[2]}, t["state"], logs))
    hist, byop = {}, {}
    if items:
        nsh = 16
        groups = [items[i::nsh] for i in range(nsh) if items[i::nsh]]
        gmeta = [meta[i::nsh] for i in range(nsh) if meta[i::nsh]]
        outs = coq.run_cases(ctx, "c27", "From Coq Require Import NArith List.\nImport ListNotations.\nFrom SwayV Require Import Vm.Alu C27.NumModel C27.CollModel C27.Spec C27.CollSpec C27.Judge.",
                             ["\n".join(g) for g in groups], timeout=1500)
        for g, ms in zip(outs, gmeta):
            if len(g) != len(ms):
                ctx.violation("judge-output", {"expected": len(ms), "got": len(g)}, "Coq judge returned a different number of results", no_input=True)
                continue
            for code, (d, tname, kind, case, state, logs) in zip(g, ms):
                label = CODES.get(code, str(code))
                hist[label] = hist.get(label, 0) + 1
                opn = case.get("op", kind)
                byop[opn] = byop.get(opn, 0) + 1
                if code == 0:
                    continue
                rep = {"package": d, "test": tname, "kind": kind, "case": case, "observed_state": state, "observed_logs": [str(x) for x in logs]}
                if code == 5:
                    key = "u128_log_overestimate" if case["op"] == "QLog" else "u256_log_overestimate"
                    ctx.violation(key, rep, "std %s::log returns its first estimate floor(log2 x / log2 b) although b^estimate overflows (result too large)" % ("U128" if case["op"] == "QLog" else "u256"))
                elif code == 2:
                    key = "%s_%s" % (opn, "_".join(case["args"]) if kind == "num" else tname)
                    ctx.violation(key[:120], rep, "std result disagrees with the reference semantics (%s)" % opn)
                else:
                    ctx.violation("corr_%s_%s" % (opn, tname), dict(rep, correspondence="C27.corr/" + opn),
                                  "model and fuel-vm execution differ (%s); reference accepts the implementation" % label, no_input=True)
    ctx.log('judged %d cases: %s' % (len(meta), hist))
    nontrivial = set()
    for d, tname, kind, case, state, logs in meta:
        if kind == "num":
            nontrivial.add((case["op"],) + tuple(case["args"]))
        elif len(case["ops"]) >= 3:
            nontrivial.add((kind,) + tuple(case["ops"]))
    ctx.coverage.update({
        "checker_cmd": "make -C coq C27/Props.vo C27/Judge.vo (coqc 8.16.1) + vm_compute judge over forc-test output",
        "trusted_base": ["Coq 8.16.1 kernel + vm_compute", "coq/Vm/Alu.v as the meaning of the FuelVM ALU instructions (tied to fuel-vm by C06 and by this run)",
                         "MROO/MLOG modelled by their integer meaning", "harness/src/bin/swayrun.rs", "props/c27.py (Sway printer of test bodies, receipt parsing)"],
        "evaluations": len(meta), "distinct_nontrivial": len(nontrivial),
        "rule": "numeric: one std operation per #[test] on boundary-biased operands passed through an #[inline(never)] identity, distinct by (operation, operands); collections: random operation sequences (<= %d operations) on Vec<u64> / Bytes (+String) from the empty collection, non-trivial = at least 3 operations, distinct by sequence" % maxlen,
        "samples": [m[3] for m in meta[:2]] + [m[3] for m in meta[-2:]],
        "packages": len(pkgs), "judgements": hist, "by_operation": byop, "package_failures": stats,
    })
    ctx.assumptions += ["a VM panic is reported by forc-test as Revert(0) and is read as such",
                        "u8..u64 sqrt/log are the MROO/MLOG instructions, modelled by their integer meaning (fuel-vm uses an f64 estimate corrected by +-1)",
                        "Vec/Bytes pointer-level behaviour (aliasing after realloc) is tied only by the correspondence run"]
