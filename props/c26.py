"""C26 — incremental (LSP) compilation agrees with a fresh compilation.

Theorems: coq/C26/Props.v (cache-validity model with an uninterpreted `check`).
Implementation: harness bin c26 drives a real sway_lsp ServerState through edit histories over small
std-free multi-module packages and, after every step, summarises the session (diagnostics, document
symbols, token map) and a brand-new server over the same texts.  The judgement (Coq, C26/Judge.v) runs
the model with a hashing `check` on the same history and classifies every step."""
import json, os, concurrent.futures as cf
from vlib import coq, rust
from vlib.core import NCPU, ROOT
from props import c26gen

CODES = {0: "agree", 1: "agree-benign", 2: "K1-stale-typed", 3: "K2-lost-diagnostics", 4: "VIOLATION",
         5: "hang-or-panic", 6: "model-error"}
KEY = {2: "stale-sibling-typed-module", 3: "reused-module-diagnostics-lost"}


def strip(s):
    return {k: v for k, v in s.items() if k != "reused"} if isinstance(s, dict) else s


def multiset_sub(a, b):
    """a ⊆ b as multisets of JSON values"""
    rest = [json.dumps(x) for x in b]
    for x in a:
        k = json.dumps(x)
        if k not in rest:
            return False
        rest.remove(k)
    return True


def observe(step):
    """-> (obs code, noisy files, missing files)"""
    a, b = strip(step["inc"]), strip(step["fresh"])
    if "panic" in a or "panic" in b or not isinstance(b, dict) or "diag" not in b:
        return 3, [], []
    noisy = sorted({d[0] for d in b["diag"]})
    if a == b:
        return 0, noisy, []
    missing = [d for d in b["diag"] if json.dumps(d) not in {json.dumps(x) for x in a["diag"]}]
    if a["sym"] == b["sym"] and a["tok"] == b["tok"] and multiset_sub(a["diag"], b["diag"]):
        return 1, noisy, sorted({d[0] for d in missing})
    return 2, noisy, sorted({d[0] for d in missing})


def run_harness(binp, cases, shard_id, work):
    inp = "".join(json.dumps({k: c[k] for k in ("id", "gc", "files", "open", "steps")}) + "\n" for c in cases)
    rc, out = rust.run(binp, input=inp, env={"C26_WORK": os.path.join(work, "run%d" % shard_id)}, timeout=3000)
    res = []
    for l in out.split("\n"):
        l = l.strip()
        if l.startswith("{"):
            try:
                res.append(json.loads(l))
            except ValueError:
                pass
    return rc, res


def coq_case(c, res):
    """Coq term of type jcase, or None if the history has steps the model does not cover (bursts)."""
    files = sorted(c["files"])
    pid = {f: i for i, f in enumerate(files)}
    tid = {}

    def text_id(t):
        return tid.setdefault(t, 2 * (len(tid) + 1))

    def tree(f):
        return "(MNode %d [%s])" % (pid[f], ";".join(tree(g) for g in c["tree"].get(f, [])))
    texts = {f: c["files"][f] for f in files}
    steps = []
    for k, st in enumerate(c["steps"]):
        if "burst" in st:
            return None
        if k < len(res["steps"]):
            obs, noisy, missing = observe(res["steps"][k])
        elif k == len(res["steps"]) and res.get("error"):
            obs, noisy, missing = 3, [], []
        else:
            break
        if "save" in st:
            f, ver = st["save"], "None"
        else:
            f = st["f"]
            texts[f] = st["t"]
            ver = "(Some %d)" % (k + 2)
        steps.append("{| js_uri := %d; js_version := %s; js_text := %d; js_noisy := [%s]; js_obs := %d; js_missing := [%s] |}"
                     % (pid[f], ver, text_id(texts[f]), ";".join(str(pid[x]) for x in noisy if x in pid), obs,
                        ";".join(str(pid[x]) for x in missing if x in pid)))
        if obs == 3:
            break
    init_texts = ";".join("(%d,%d)" % (pid[f], text_id(c["files"][f])) for f in files)
    # NB: initial text ids must be allocated before the steps' ids for determinism only; ids are just names.
    uses = ";".join("(%d,[%s])" % (pid[f], ";".join(str(pid[g]) for g in us)) for f, us in sorted(c["uses"].items()))
    return ("{| j_tree := %s; j_uses := [%s]; j_open := [%s]; j_gc := %s; j_texts := [%s]; j_steps := [%s] |}"
            % (tree("lib.sw"), uses, ";".join(str(pid[f]) for f in c["open"]), "true" if c["gc"] else "false",
               init_texts, ";\n   ".join(steps)))


def panic_key(res):
    txt = " ".join(res.get("panics") or []) + " " + (res.get("error") or "")
    if "concurrent_slab" in txt or "invalid slab index" in txt:
        return "gc-collected-entry-still-referenced"
    if "panicked at" in txt:
        site = txt.split("panicked at", 1)[1].split(":")[0].strip().split("/")[-1]
        return "worker-panic-" + site
    return "server-hang"


def run(ctx):
    ctx.level = "proof"
    ok, out = coq.check_props(ctx, "C26", extra_targets=["C26/Judge.vo"])
    if not ok:
        ctx.log(out[-3000:])
    ctx.log("proofs checked: %s" % ok)
    binp, bout = rust.build("c26")
    ctx.log("harness built")
    if binp is None:
        ctx.violation("harness-build", {"log": bout[-4000:]}, "harness c26 does not build against /repo", no_input=True)
        return
    # ---- cases: corpus witnesses + random histories
    corpus = [json.loads(l) for l in open(os.path.join(ROOT, "corpus", "C26", "witnesses.jsonl")) if l.strip()]
    nrand = 20 if ctx.quick else 240
    maxed = 5 if ctx.quick else 8
    rnd = []
    for i in range(nrand):
        closed = ctx.rng.random() < 0.6
        gc = ctx.rng.random() < (0.15 if ctx.quick else 0.4)
        rnd.append(c26gen.gen_case(ctx.rng, "h%d" % i, closed, ctx.rng.randint(2, maxed), gc))
    cases = corpus + rnd
    nsh = min(NCPU, 8 if ctx.quick else 12, len(cases))
    shards = [cases[k::nsh] for k in range(nsh)]
    with cf.ThreadPoolExecutor(max_workers=nsh) as ex:
        outs = list(ex.map(lambda kv: run_harness(binp, kv[1], kv[0], ctx.work), enumerate(shards)))
    results = {}
    for (rc, res), sh in zip(outs, shards):
        for r in res:
            results[r["id"]] = r
        if len(res) != len(sh):
            ctx.violation("harness-run", {"rc": rc, "got": len(res), "want": len(sh)},
                          "harness c26 did not answer every case", no_input=True)
    ctx.log("server runs done: %d histories" % len(results))
    # ---- judgement in Coq
    items, idx = [], []
    for c in cases:
        r = results.get(c["id"])
        if r is None:
            continue
        term = coq_case(c, r)
        if term is not None:
            items.append(term)
            idx.append(c)
    per = max(1, (len(items) + NCPU - 1) // NCPU)
    cshards = []
    for k in range(0, len(items), per):
        cshards.append("Definition cs : list jcase := [\n%s\n].\nEval vm_compute in (judge_all cs)." % ";\n".join(items[k:k + per]))
    try:
        jres = coq.run_cases(ctx, "c26", "From SwayV Require Import Base.Util C26.Model C26.Judge.\nLocal Open Scope N_scope.", cshards)
    except RuntimeError as e:
        ctx.violation("model-eval", {"log": str(e)[-3000:]}, "C26 judge could not be evaluated (correspondence not checked)", no_input=True)
        return
    ctx.log("judged in Coq")
    judged = [x for sh_ in jres for x in sh_[0]]
    assert len(judged) == len(idx), (len(judged), len(idx))
    hist, steps_total, nontrivial, in_class_cases, reuse_steps = {}, 0, set(), 0, 0
    observed = {}
    for c, (in_class, codes) in zip(idx, judged):
        in_class = getattr(in_class, "head", in_class) == "true"
        in_class_cases += 1 if in_class else 0
        r = results[c["id"]]
        observed[c["id"]] = [CODES.get(x, str(x)) for x in codes]
        steps_total += len(codes)
        if len(c["steps"]) >= 2:
            nontrivial.add(json.dumps([c["files"], c["steps"]], sort_keys=True))
        for k, code in enumerate(codes):
            hist[CODES.get(code, str(code))] = hist.get(CODES.get(code, str(code)), 0) + 1
            rep = {"case": {x: c[x] for x in ("id", "gc", "files", "open", "steps")}, "step": k, "in_proved_class": in_class,
                   "observed": r["steps"][k] if k < len(r["steps"]) else None, "error": r.get("error"), "panics": r.get("panics")}
            if code in KEY:
                ctx.violation(KEY[code], rep, "history %s step %d: %s (incremental session differs from a from-scratch compilation)" % (c["id"], k, CODES[code]))
            elif code == 5:
                ctx.violation(panic_key(r), rep, "history %s step %d: the compilation thread hung or panicked: %s" % (c["id"], k, (r.get("error") or "")[:200]))
            elif code == 4:
                small = shrink(ctx, binp, c, k)
                ctx.violation("diff-%s" % c["id"], dict(rep, shrunk=small),
                              "history %s step %d: the incremental session differs from a from-scratch compilation although the model predicts agreement (closed=%s)" % (c["id"], k, in_class))
            elif code == 6:
                ctx.violation("model-error-%s" % c["id"], rep, "the model panicked or ran out of fuel on history %s (theorem C26_incremental_eq_fresh excludes this)" % c["id"], no_input=True)
    # ---- the refutation witnesses must still behave as the model predicts
    for c in corpus:
        r = results.get(c["id"])
        if r is None:
            continue
        got = set()
        for k, st in enumerate(r["steps"]):
            obs, _, _ = observe(st)
            if obs != 0:
                got.add(k)
        if r.get("error"):
            got.add(len(r["steps"]))
        if "burst" in json.dumps(c["steps"]):
            if got:
                rep = {"case": {x: c[x] for x in ("id", "gc", "files", "open", "steps")}, "observed": r["steps"], "error": r.get("error")}
                ctx.violation("superseded-edit-stale-typed-module", rep, "history %s: an edit superseded by an edit of another file is never compiled" % c["id"])
        if not got:
            ctx.violation("witness-%s" % c["id"], {"case": c["id"], "expect": c.get("expect")},
                          "the refutation witness %s (Coq: C26_*_refuted) no longer differs on the real server: model and implementation disagree, the excluded classes of C26_incremental_eq_fresh are not the implementation's" % c["id"],
                          no_input=True)
    if not ok:
        ctx.violation("proof", {"theorems": [o for o in ctx.obligations if not o[1]], "log": out[-2000:]},
                      "C26 proofs do not check", no_input=True)
    kinds = {}
    for c in rnd:
        for k in c.get("kinds", []):
            kinds[k] = kinds.get(k, 0) + 1
    ctx.coverage.update({
        "checker_cmd": "make -C coq C26/Props.vo C26/Judge.vo (coqc 8.16.1) + coqc vm_compute judge over harness output",
        "trusted_base": ["Coq 8.16.1 kernel + vm_compute", "harness/src/bin/c26.rs (session driving, summaries)",
                         "props/c26.py + props/c26gen.py (history generation, summary comparison, case text)",
                         "the model (C26/Model.v) is tied to the server by the classification of every step and by the replayed witnesses, not by a hook"],
        "evaluations": steps_total, "distinct_nontrivial": len(nontrivial),
        "rule": "edit histories (2..%d edits + saves) over generated std-free library packages with 3..5 modules (nesting, struct + functions, imports from submodules; 40%% also from siblings); non-trivial = at least 2 steps; distinct by (initial texts, steps); one evaluation = one step compared with a brand-new server" % maxed,
        "samples": [{"id": c["id"], "closed": c.get("closed"), "gc": c["gc"], "kinds": c.get("kinds"), "judged": observed.get(c["id"])} for c in rnd[:4]],
        "histories": len(cases), "histories_in_proved_class": in_class_cases, "judgements": hist, "edit_kinds": kinds,
        "explanation": "Theorem C26_incremental_eq_fresh: for every module tree, check function and history in the editor protocol whose modules read only their submodules' results and whose untouched subtrees emit no type-check diagnostics, the session shows exactly the from-scratch result after every completed compilation; three refutation theorems give the witnesses outside that class, replayed on the real server.",
    })
    ctx.assumptions += ["file content hash = content, unchanged mtime = unchanged content", "module structure constant over a history",
                        "parsing/type checking never abort (recoverable errors are diagnostics)",
                        "model = server is established by classifying the generated histories and replaying the witnesses only"]


def shrink(ctx, binp, c, k):
    """drop edits one at a time while step-level disagreement persists (bounded)"""
    steps = c["steps"][:k + 1]
    tries = 0
    changed = True
    while changed and tries < 6 and len(steps) > 1:
        changed = False
        for i in range(len(steps) - 1):
            cand = steps[:i] + steps[i + 1:]
            tries += 1
            rc, res = run_harness(binp, [dict(c, steps=cand, id="shrink")], 99, ctx.work)
            if res and res[0]["steps"] and observe(res[0]["steps"][-1])[0] != 0:
                steps, changed = cand, True
                break
            if tries >= 6:
                break
    return steps
