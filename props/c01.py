"""C01 — compiled scripts compute what the Sway semantics prescribe.   Level: other (partial).

 proved (coq/C01/Props.v): Frag reference semantics is type sound / fuel monotone / reverts only for listed
   causes; every operator impl of ops.sw (re-read from source by tools/facts_c01.py on every run) refines the
   documented arithmetic for ALL operands (u8..u256, b256, bool).
 decided on the implementation (sampled): generated well-typed Frag programs (tools/gen/fraggen.py) are built
   by forc in debug and release, run on fuel-vm, and what was observed (revert status + logged data) is
   compared, inside Coq, with Frag.eval of the same program (C01.Judge); a sample of the maintainers' e2e
   `run` scripts is executed under both profiles against their expected results (harness bin c01)."""
import os, re, glob, json, time, hashlib, random
from vlib import coq, rust, sway
from vlib.core import REPO, ROOT
from tools import facts_c01
from tools.gen import pipeline, fraggen, shrink

CODES = {0: "agree", 1: "state-differs", 2: "logs-differ", 3: "reference-out-of-fuel", 4: "reference-stuck-or-ill-typed",
         5: "reference-indexes-out-of-bounds"}
OOB_KEY = "array-dynamic-index-no-bounds-check"

def oob_program():
    """canonical program of the known finding: a run-time index one past the end of a local array"""
    g = fraggen.Gen(random.Random(0), "oob_canon", viol=0.0)
    U64 = fraggen.U64
    arr = ("arr", U64, 3)
    idx = g.hide(g.lit(64, 3), U64)
    g.p.main = [("let", "a", False, arr, ("arr", U64, [g.lit(64, 11), g.lit(64, 22), g.lit(64, 33)])),
                ("let", "guard", False, U64, g.lit(64, 424242)),
                ("let", "i", False, U64, idx),
                ("log", U64, ("idx", ("var", "a"), ("var", "i"))),
                ("log", U64, ("var", "guard"))]
    return g

DEAD_KEY = "dead-trapping-arithmetic-eliminated"

def dead_trap_program():
    """canonical program of the known finding: an unused `%` by a run-time zero does not revert"""
    g = fraggen.Gen(random.Random(0), "dead_canon", viol=0.0)
    U64 = fraggen.U64
    g.p.main = [("let", "d", False, U64, g.hide(g.lit(64, 0), U64)),
                ("let", "v", False, U64, ("bin", "Mod", 64, g.lit(64, 7), ("var", "d"))),
                ("log", U64, g.lit(64, 1))]
    return g

def tgen(ctx):
    try:
        return facts_c01.generate(REPO, os.path.join(coq.COQ, "Generated", "C01Facts.v"))
    except facts_c01.FactsError as e:
        ctx.violation(ctx.pid + ".tgen", {"error": str(e), "translator": "tools/facts_c01.py"},
                      "%s.tgen: the source shape is no longer recognised: %s" % (ctx.pid, e), no_input=True)
        return None

def collect(ctx, pkgs, dirs, res, stats):
    """-> list of (gen, obs_debug, obs_release) for programs observed under both profiles;
    package-level failures are diagnosed per program and returned in `failures`"""
    good, failures = [], []
    for name, gens in pkgs:
        rs = res[name]
        bad = [p for p in ("debug", "release") if rs[p]["status"] != "ok"]
        if bad:
            stats["package_failures"] = stats.get("package_failures", 0) + 1
            failures.append((name, gens, rs, bad))
            continue
        by = {p: {t["name"]: t for t in rs[p]["tests"]} for p in ("debug", "release")}
        for g in gens:
            td, tr = by["debug"].get(g.p.name), by["release"].get(g.p.name)
            if td is None or tr is None:
                ctx.violation("missing-test-result", {"package": dirs[name], "test": g.p.name}, "forc-test reported no result for a generated test", no_input=True)
                continue
            good.append((g, pipeline.observe(td), pipeline.observe(tr)))
    return good, failures

def split_failures(ctx, failures, base, stats, timeout):
    """a package failed to build/run under some profile: rerun every program alone, under the failing
    profile(s) only (the other profile's per-test results are taken from the package run)"""
    out = []
    for name, gens, rs, bad in failures:
        singles = {g.p.name: sway.write_pkg(os.path.join(base, "single"), g.p.name, {"lib.sw": "library;\n\n" + g.p.sway()}) for g in gens}
        res = {}
        for prof in ("debug", "release"):
            if prof in bad:
                # generous time-out, half the cores: one small program per package
                r = sway.run_pkgs(list(singles.values()), release=(prof == "release"), timeout=max(timeout, 1200), jobs=8)
                res[prof] = {n: r[d] for n, d in singles.items()}
            else:
                by = {t["name"]: t for t in rs[prof]["tests"]}
                res[prof] = {n: ({"status": "ok", "tests": [by[n]]} if n in by else {"status": "harness_error", "error": "no result"}) for n in singles}
        for g in gens:
            out.append((g, singles[g.p.name], res["debug"][g.p.name], res["release"][g.p.name]))
        for prof in bad:
            if all(res[prof][n]["status"] == "ok" for n in singles) and rs[prof]["status"] != "harness_error":
                # every program builds alone but the package does not: an interaction between the programs
                # (cross-program function dedup / inlining); the failing input is the package itself
                pdir = os.path.join(base, name)
                msg = diag(pdir, prof == "release") if rs[prof]["status"] == "build_error" else rs[prof].get("error", "")[:600]
                cls = classify_build_failure(msg, rs[prof])
                other = "release" if prof == "debug" else "debug"
                if rs[other]["status"] == "ok":
                    ctx.violation("profile-build-%s" % cls, {"package": pdir, "profile": prof, "diagnostics": msg, "programs": len(gens),
                                                              "source": open(os.path.join(pdir, "src", "lib.sw")).read()[:200000]},
                                  "the %s build of a package of %d generated programs fails (%s) although every program builds alone and the %s build of the package succeeds: %s"
                                  % (prof, len(gens), cls, other, msg[:200]))
                    stats["package_only_failures"] = stats.get("package_only_failures", 0) + 1
    return out

def confirm_timeout(d, release):
    """a time-out is only reported when the program, alone on one core budget, still does not finish"""
    r = sway.run_pkgs([d], release=release, timeout=2400, jobs=1)[d]
    return r

def diag(d, release):
    binp, _ = rust.build("c01")
    if not binp: return ""
    rc, o = rust.run(binp, ["diag"] + (["--release"] if release else []) + [d], timeout=600)
    o = re.sub(r"\x1b\[[0-9;]*m", "", o)
    errs = [l for l in o.split("\n") if "error" in l.lower() and not l.startswith("warning")]
    return "\n".join(errs[:8])[:1500]

def report_single(ctx, g, d, rd, rr, stats):
    """one program alone in a package; returns observations or None"""
    sd, sr = rd["status"], rr["status"]
    src = g.p.sway()
    if sd == "ok" and sr == "ok":
        td, tr = rd["tests"][0], rr["tests"][0]
        return pipeline.observe(td), pipeline.observe(tr)
    for prof, r in (("debug", rd), ("release", rr)):
        if r["status"] == "harness_error" and "rc=124" in r.get("error", ""):
            r2 = confirm_timeout(d, prof == "release")
            if prof == "debug": rd = r2
            else: rr = r2
    sd, sr = rd["status"], rr["status"]
    if sd == "ok" and sr == "ok":
        return pipeline.observe(rd["tests"][0]), pipeline.observe(rr["tests"][0])
    key_src = hashlib.sha256(src.encode()).hexdigest()[:10]
    if sd != sr:
        # the two profiles disagree on whether the program can be built/run at all: C02's subject, also a C01 failure
        which = "release" if sr != "ok" else "debug"
        msg = diag(d, which == "release") if (rr if which == "release" else rd)["status"] == "build_error" else ""
        cls = classify_build_failure(msg, (rr if which == "release" else rd))
        ctx.violation("profile-build-%s" % cls, {"program": src, "debug": sd, "release": sr, "diagnostics": msg,
                                                   "error": (rr if which == "release" else rd).get("error", "")[:600]},
                      "the %s build of a generated well-typed program fails (%s) while the other profile builds and runs: %s" % (which, cls, msg[:200]))
        stats["profile_only_failures"] = stats.get("profile_only_failures", 0) + 1
    else:
        msg = diag(d, False) if sd == "build_error" else rd.get("error", "")[:600]
        if sd == "panic":
            ctx.violation("compiler-panic-%s" % key_src, {"program": src, "error": rd.get("error", "")[:800]}, "forc panics on a generated program: %s" % rd.get("error", "")[:200])
        else:
            ctx.violation("generated-program-rejected", {"program": src, "status": sd, "diagnostics": msg, "correspondence": "C01.gen/well-typed-programs-build"},
                          "a generated program does not build in either profile (generator or compiler defect): %s" % msg[:300], no_input=True)
        stats["rejected_programs"] = stats.get("rejected_programs", 0) + 1
    return None

def classify_build_failure(msg, r):
    if r["status"] == "harness_error" and "rc=124" in r.get("error", ""): return "timeout"
    m = re.search(r"Internal compiler error: ([A-Za-z ]+)", msg or "")
    if m: return "ice-" + re.sub(r"[^a-z]+", "-", m.group(1).lower()).strip("-")[:50]
    if r["status"] == "panic": return "panic"
    return r["status"]

def minimise(ctx, g, profile, budget_s):
    """delete statements / replace sub-expressions while VM and reference still disagree"""
    t0 = time.time()
    cnt = [0]
    def pred(p):
        if time.time() - t0 > budget_s: return False
        cnt[0] += 1
        d = sway.write_pkg(os.path.join(ctx.work, "shrink"), "s%d" % cnt[0], {"lib.sw": "library;\n\n" + p.sway()})
        r = sway.run_pkgs([d], release=(profile == "release"), timeout=300, jobs=1)[d]
        if r["status"] != "ok" or not r["tests"]: return False
        o = pipeline.observe(r["tests"][0])
        if isinstance(o[0], tuple): return False
        j = pipeline.judge(ctx, [(p.coq(), o)], name="shr%d" % cnt[0])
        return j[0][0] in (1, 2)
    return shrink.shrink(g.p, pred, batch=8, max_rounds=25, log=ctx.log)

def run_generated(ctx, npk, nprog, stats, save=True, search=False):
    base = os.path.join(ctx.work, "pkgs")
    pkgs = pipeline.all_packages(ctx.seed, npk, nprog, ctx.tier)
    if search:
        # the proof / T-gen broke: look for a failing input over every boundary split and identity/trap pair
        pkgs += pipeline.search_packages()
        stats["search_packages"] = True
    canon = oob_program()
    pkgs.append(("gcanon", [canon]))
    pkgs.append(("gdead", [dead_trap_program()]))
    dirs = pipeline.write_packages(base, pkgs)
    t0 = time.time()
    tmo = 600 if ctx.quick else 1800
    res = pipeline.run_profiles(dirs, timeout=tmo)
    stats["build_and_run_s"] = round(time.time() - t0, 1)
    if save:
        pipeline.save_cache(pipeline.cache_path(os.path.dirname(ctx.work), ctx.seed, ctx.tier),
                            {"npk": npk, "nprog": nprog, "seed": ctx.seed, "tier": ctx.tier, "results": res, "time": time.time()})
    good, failures = collect(ctx, pkgs, dirs, res, stats)
    if failures:
        for g, d, rd, rr in split_failures(ctx, failures, base, stats, tmo):
            o = report_single(ctx, g, d, rd, rr, stats)
            if o: good.append((g, o[0], o[1]))
    return good, canon

def decide(ctx, good, canon, stats):
    cases, meta = [], []
    for g, od, orr in good:
        for prof, o in (("debug", od), ("release", orr)):
            if isinstance(o[0], tuple):
                ctx.violation("unexpected-vm-state", {"program": g.p.sway(), "profile": prof, "state": o[0][1]}, "test ended in an unexpected VM state", no_input=True)
                continue
            if prof == "release" and o == od: continue     # identical observation: judged once
            cases.append((g.p.coq(), o)); meta.append((g, prof, o))
    out = pipeline.judge(ctx, cases)
    hist = {}
    for (g, prof, o), (code, erv, elogs) in zip(meta, out):
        nm = CODES.get(code, str(code))
        hist[nm] = hist.get(nm, 0) + 1
        if code == 0: continue
        src = g.p.sway()
        if code == 5:
            if g is canon:
                if o[0] != 0 or o[1] != []:
                    ctx.violation(OOB_KEY, {"program": src, "profile": prof, "observed": {"revert": o[0], "logs": o[1]},
                                            "prescribed": "Revert (index 3 of a 3-element array)"},
                                  "a run-time array index out of bounds does not revert")
            else:
                ctx.violation("generator-out-of-bounds", {"program": src}, "generator produced an out-of-bounds index (must not happen)", no_input=True)
            continue
        if code in (3, 4):
            ctx.violation("reference-%s" % nm, {"program": src, "coq": g.p.coq()[:4000], "correspondence": "C01.gen/Frag.has_type"},
                          "the reference semantics cannot evaluate a generated program (%s): generator/Frag defect" % nm, no_input=True)
            continue
        # VM and reference semantics disagree
        if g.p.name == "dead_canon":
            ctx.violation(DEAD_KEY, {"program": src, "profile": prof, "observed": {"revert": o[0], "logs": o[1]}, "prescribed": {"revert": erv, "logs": elogs}},
                          "an unused `7 % d` with d = 0 at run time is deleted by the compiler and does not revert")
            continue
        small = g.p
        if stats.get("minimised", 0) < (1 if ctx.quick else 6) and len(g.p.main) > 3:
            try:
                small = minimise(ctx, g, prof, 120 if ctx.quick else 900)
                stats["minimised"] = stats.get("minimised", 0) + 1
            except Exception as e:
                ctx.log("minimiser failed: %r" % (e,))
        ssrc = small.sway()
        key = "vm-vs-reference-%s-%s" % (nm, hashlib.sha256(ssrc.encode()).hexdigest()[:10])
        ctx.violation(key, {"program": ssrc, "original_program": src if ssrc != src else None, "profile": prof,
                            "operands": getattr(g, "meta", None),
                            "observed": {"revert": o[0], "logs": o[1]}, "prescribed": {"revert": erv, "logs": elogs},
                            "coq_program": small.coq()[:6000]},
                      "compiled program (%s) and reference semantics disagree: %s; observed revert=%s, prescribed revert=%s%s"
                      % (prof, nm, o[0], erv, (" [op=%(op)s width=%(width)s a=%(a)s b=%(b)s]" % g.meta) if getattr(g, "meta", None) and "a" in g.meta else ""))
    return hist

# ------------------------------------------------------------------------------------------- e2e corpus
E2E = os.path.join(REPO, "test/src/e2e_vm_tests/test_programs/should_pass/language")

def e2e_candidates():
    out = []
    for d in sorted(glob.glob(os.path.join(E2E, "*")) + glob.glob(os.path.join(E2E, "*", "*"))):
        tt, ft, ms = os.path.join(d, "test.toml"), os.path.join(d, "Forc.toml"), os.path.join(d, "src", "main.sw")
        if not (os.path.isfile(tt) and os.path.isfile(ft) and os.path.isfile(ms)): continue
        t, f, m = open(tt).read(), open(ft).read(), open(ms).read()
        if not re.search(r'^category\s*=\s*"run"', t, re.M): continue
        if not re.match(r"\s*(//[^\n]*\n\s*)*script\s*;", m): continue
        if "script_data" in t or "experimental" in t or "unsupported_profiles" in t or "witness" in t: continue
        deps = re.findall(r"^\s*(\w[\w-]*)\s*=\s*\{([^}]*)\}", f.split("[dependencies]")[-1], re.M)
        if any(n not in ("std", "core") or "git" in spec for n, spec in deps): continue
        exp = None
        for key in ("expected_result_new_encoding", "expected_result"):
            mm = re.search(r'^%s\s*=\s*\{\s*action\s*=\s*"(\w+)"\s*,\s*value\s*=\s*("?)([^"}\s]*(?: [^"}]*)?)\2\s*\}' % key, t, re.M)
            if mm:
                exp = (mm.group(1), mm.group(3).replace(" ", "")); break
        if exp is None: continue
        out.append((d, exp))
    return out

def e2e_view(r):
    if r.get("status") != "ok": return (r.get("status"), r.get("error", "")[:200])
    if r["state"] == "Return": return ("return", r["value"])
    if r["state"] == "ReturnData": return ("return_data", r["data"])
    if r["state"] == "Revert": return ("revert", r["value"])
    return (r["state"], "")

def run_e2e(ctx, n, stats, check_expected=True):
    import concurrent.futures as cf
    cands = e2e_candidates()
    stats["e2e_eligible"] = len(cands)
    rng = random.Random(ctx.seed * 31 + 5)
    pick = cands if n >= len(cands) else rng.sample(cands, n)
    binp, out = rust.build("c01")
    if not binp:
        ctx.violation("harness-build", {"log": out[-1500:]}, "harness bin c01 does not build", no_input=True)
        return []
    import shutil
    def one(c):
        d0, exp = c
        # private copy with the full std (the reduced std libs of the e2e harness are materialised only by that harness)
        d = os.path.join(ctx.work, "e2e", os.path.relpath(d0, E2E).replace("/", "__"))
        shutil.rmtree(d, ignore_errors=True)
        shutil.copytree(d0, d, ignore=shutil.ignore_patterns("out", "target", "*.lock"))
        ft = os.path.join(d, "Forc.toml")
        t = re.sub(r'^(std|core)\s*=\s*\{[^}]*\}', 'std = { path = "%s/sway-lib-std" }' % REPO, open(ft).read(), flags=re.M)
        t = re.sub(r'^implicit-std\s*=.*$', '', t, flags=re.M)
        open(ft, "w").write(t)
        rc, o = rust.run(binp, ["e2e", d], timeout=900)
        for line in o.split("\n"):
            if line.startswith("{"):
                try: return c, json.loads(line)
                except Exception: pass
        return c, {"debug": {"status": "harness_error", "error": o[-300:]}, "release": {"status": "harness_error", "error": o[-300:]}}
    results = []
    with cf.ThreadPoolExecutor(max_workers=12) as ex:
        for (d, exp), r in ex.map(one, pick):
            vd, vr = e2e_view(r["debug"]), e2e_view(r["release"])
            name = os.path.relpath(d, E2E)
            logs_same = r["debug"].get("logs") == r["release"].get("logs")
            results.append((name, exp, vd, vr))
            if vd != vr or not logs_same:
                ctx.violation("e2e-profile-diff-%s" % name, {"package": d, "debug": r["debug"], "release": r["release"]},
                              "e2e script %s behaves differently in debug and release: %s vs %s" % (name, vd, vr))
                continue
            want = (exp[0], str(int(exp[1])) if exp[0] in ("return", "revert") else exp[1].lower())
            if check_expected and vd[0] in ("return", "return_data", "revert") and vd != want:
                stats["e2e_expected_mismatch"] = stats.get("e2e_expected_mismatch", 0) + 1
                ctx.violation("e2e-expected-%s" % name, {"package": d, "expected": want, "observed": vd},
                              "e2e script %s: maintainers expect %s, both profiles give %s" % (name, want, vd))
            elif vd[0] not in ("return", "return_data", "revert"):
                stats["e2e_not_run"] = stats.get("e2e_not_run", 0) + 1
    return results

def run(ctx):
    ctx.level = "other"
    stats = {}
    facts = tgen(ctx)
    frag_files = glob.glob(os.path.join(coq.COQ, "Frag", "*.v")) + glob.glob(os.path.join(coq.COQ, "Vm", "*.v"))
    for p in coq.audit_sources(frag_files):
        ctx.obligations.append(("audit:" + p, False, "forbidden vernacular"))
    ok, out = coq.check_props(ctx, "C01", extra_targets=["C01/Judge.vo"])
    if not ok:
        ctx.log(out[-3000:])
        ctx.violation("proof", {"theorems": [o for o in ctx.obligations if not o[1]], "log": out[-2500:]},
                      "C01 proofs do not check (ops.sw impls as regenerated no longer refine the documented arithmetic, or Frag meta-theory broke); "
                      "the generated operator sweeps below are the search for a failing input", no_input=True)
    judge_ok = os.path.exists(os.path.join(coq.COQ, "C01", "Judge.vo"))
    npk, nprog = (3, 24) if ctx.quick else (40, 60)
    hist, good = {}, []
    import threading
    e2e_box = []
    th = threading.Thread(target=lambda: e2e_box.append(run_e2e(ctx, 6 if ctx.quick else 150, stats)))
    th.start()
    if judge_ok:
        good, canon = run_generated(ctx, npk, nprog, stats, search=(not ok or facts is None))
        hist = decide(ctx, good, canon, stats)
    else:
        ctx.violation("judge-missing", {}, "C01/Judge.vo could not be built: programs cannot be judged", no_input=True)
    th.join()
    e2e = e2e_box[0] if e2e_box else []
    progs = [g for g, _, _ in good]
    gstats = {}
    for g in progs:
        for k, v in g.stats.items(): gstats[k] = gstats.get(k, 0) + v
    nrev = sum(1 for _, od, _ in good if od[0] is not None)
    distinct = {hashlib.sha256(g.p.coq().encode()).hexdigest() for g in progs if len(g.p.main) >= 3}
    ctx.coverage.update({
        "explanation": "PARTIAL. Proved for all inputs: the operator layer (each ops.sw impl, regenerated from source, = documented arithmetic incl. "
                       "u8/u16/u32 range checks and u256 widths) and the meta-theory of the reference semantics Frag (type soundness, fuel monotonicity, "
                       "reverts only from listed causes). The all-programs quantifier over the compiler pipeline is only SAMPLED: generated well-typed "
                       "programs + a sample of e2e run scripts, built in debug and release, run on fuel-vm, judged in Coq against Frag.eval. "
                       "Not modelled: type checker, IR generation, optimisation passes, code generation, references (&/&mut), strings, storage, contracts.",
        "checker_cmd": "python3 tools/facts_c01.py; make -C coq C01/Props.vo C01/Judge.vo (coqc 8.16.1); swayrun / c01 e2e on fuel-vm; vm_compute judge",
        "trusted_base": ["Coq 8.16.1 kernel + vm_compute", "tools/facts_c01.py (ops.sw -> iexp translator; shape-checked)", "tools/gen/fraggen.py printers (Sway text and Coq term of the same AST)",
                         "Vm.Alu as model of fuel-vm 0.66 ALU (tied by C06's runs)", "harness swayrun/c01 + forc-test receipt extraction",
                         "Frag.Encode as model of the ABI encoding of logged values (checked by every agreeing log)"],
        "evaluations": len(good) * 2 + len(e2e) * 2, "distinct_nontrivial": len(distinct),
        "rule": "one evaluation = one generated program built+run under one profile and judged against Frag.eval (or one e2e script under one profile); "
                "distinct by Coq term; non-trivial = test body of >= 3 top-level statements",
        "samples": [{"program": g.p.sway()[:1500], "observed_debug": {"revert": od[0], "logs": od[1][:6]}} for g, od, _ in good[3:5]],
        "programs": len(good), "programs_reverting": nrev, "judgements": hist, "generator_feature_counts": gstats,
        "packages": npk, "programs_per_package": nprog, "run_stats": stats,
        "e2e_scripts": [{"name": n, "expected": e, "debug": d, "release": r} for n, e, d, r in e2e[:40]],
        "pass_lists": facts,
    })
    ctx.assumptions += ["a VM panic is observed as Revert(0) (forc-test maps interpreter errors to ProgramState::Revert(0))",
                        "the Sway text and the Coq term printed from one generator AST denote the same program (printer correctness is trusted, exercised by every agreeing run)",
                        "Frag's evaluation order (left to right, arguments before the call, require's message evaluated before the test) is the documented one",
                        "known finding excluded from the comparison: run-time array index out of bounds (no bounds check is emitted)"]
