"""C16 — lexer and parser never crash and report in-bounds spans.
Theorems: coq/C16/Props.v (model of sway-parse/src/token.rs, all inputs).  Correspondence and
decision: the real `lex_commented` / `parse_file` (harness bin c16, under catch_unwind) on every .sw
file of the repository, mutations and token soups; each result is judged inside Coq (C16/Judge.v):
the proved `span_ok` oracle on every reported span (lexer tokens, lexer errors, parser diagnostics)
and exact comparison of the lexer's token/error stream with the model's."""
import os, glob, hashlib
from vlib import coq, rust
from vlib.core import NCPU, REPO, ROOT

MODEL_CAP_QUICK, MODEL_CAP_THOROUGH = 2048, 6144   # bytes: above this only no-panic + span oracle (no model comparison)
LEXC = {0: "agree", 1: "corr-diff", 2: "lex-panic", 3: "lex-span-bad", 4: "model-panic-or-fuel", 5: "length-mismatch", 9: "oracle-only"}
PARC = {0: "ok", 2: "parse-panic", 3: "parse-span-bad", 4: "parse-foreign-span-bad", 5: "parse-span-not-derived"}

VOCAB = ["fn", "let", "struct", "enum", "impl", "use", "mod", "pub", "script", ";", "contract", "library", "abi", "storage", "match", "if",
         "else", "while", "for", "in", "return", "true", "false", "self", "ref", "mut", "const", "where", "as", "asm", "configurable",
         "{", "}", "(", ")", "[", "]", "::", ":", ",", ".", "..", "=>", "->", "==", "=", "<", ">", "<<", ">>", "+", "-", "*", "/", "%", "&", "|",
         "^", "!", "#", "_", "__", "#[", "#![", "//", "///", "//!", "////", "/*", "*/", "/**/", "\"", "'", "\\", "\\n", "\\x", "\\x4", "\\xZZ",
         "\\u", "\\u{", "\\u{41}", "\\u{110000}", "\\u{D800}", "\\u{FFFFFFFFFF}", "\\u{}", "\\q", "0", "0x", "0b", "0o", "0x1F", "0b10", "0o7",
         "1_000", "42u8", "7u64", "1u256", "3i8", "9zz", "0x_", "1e5", "r#", "r#fn", "r#_", "r", "x", "foo", "Bar", "a_b", "_x", "'a'", "'ab'",
         "'\\n'", "\"str\"", "\"a\\\"b\"", "\n", "\r\n", " ", "\t", "$", "@", "~", "`", "?", "0x" + "0" * 64, "b256", "u64", "str", "__gtf",
         "é", "ñ", "ß", "λ", "字", "😀", "́", " ", "\u0085", " ", "‏", "‮", "⁦", "؜", "﻿", "·", "　"]
UNI = ["é", "ñ", "ß", "λ", "字", "😀", "́", " ", "\u0085", " ", "‏", "‮", "⁦", "⁩", "؜", "﻿",
       "·", "　", "߫", "\U0001F468‍\U0001F469", "٠", "ǅ", "\U00010000", "￿", "ࠀ", "߿", "\u0080"]
DELIMS = "(){}[]"


def sanitize(b):
    """bytes -> valid UTF-8 bytes (what the harness accepts); invalid sequences become U+FFFD."""
    return b.decode("utf-8", "replace").encode("utf-8")


def window(rng, text, maxlen):
    """a random window of `text` (str) of at most maxlen bytes"""
    if len(text.encode()) <= maxlen:
        return text
    n = len(text)
    for _ in range(4):
        a = rng.randrange(n)
        w = text[a:a + maxlen // 2 + rng.randrange(maxlen // 2)]
        if len(w.encode()) <= maxlen:
            return w
    return text[:maxlen // 4]


def mutate(rng, base, others):
    """one mutant of `base` (str); returns (kind, bytes)"""
    kind = rng.choice(["byte", "byte", "tok-ins", "tok-ins", "tok-del", "splice", "uni", "uni", "uni-end", "uni-end",
                       "delim", "delim", "trunc", "trunc-open", "multi", "op-glue", "op-glue"])
    t = base
    n = len(t)
    if kind == "byte":
        b = bytearray(t.encode())
        for _ in range(rng.choice([1, 1, 2, 5])):
            op = rng.choice("idf")
            p = rng.randrange(len(b) + 1)
            if op == "i": b.insert(p, rng.randrange(256))
            elif op == "d" and b: del b[min(p, len(b) - 1)]
            elif b: b[min(p, len(b) - 1)] = rng.randrange(256)
        return kind, sanitize(bytes(b))
    if kind == "tok-ins":
        for _ in range(rng.choice([1, 1, 2, 4])):
            p = rng.randrange(len(t) + 1)
            t = t[:p] + rng.choice(VOCAB) + t[p:]
    elif kind == "tok-del":
        import re
        toks = re.findall(r"\w+|\s+|[^\w\s]", t)
        for _ in range(rng.choice([1, 1, 2, 4])):
            if toks: del toks[rng.randrange(len(toks))]
        t = "".join(toks)
    elif kind == "splice":
        o = rng.choice(others)
        t = t[:rng.randrange(n + 1)] + o[rng.randrange(len(o) + 1):]
    elif kind == "uni":
        for _ in range(rng.choice([1, 1, 2, 3])):
            p = rng.randrange(len(t) + 1)
            t = t[:p] + rng.choice(UNI) + t[p:]
    elif kind == "uni-end":
        # cut somewhere, open a comment / string / char / escape, end with a multi-byte char
        t = t[:rng.randrange(n + 1)]
        opener = rng.choice(["/*", "/* ", "/*/*", "/* */ /*", "\"", "\"abc", "'", "'a", "'ab", "'\\x41", "'\\n", "\"\\u", "\"\\u{", "'\\u",
                             "\"\\x", "\"\\", "//", "///", "//!", "0x", "0b", "1u", "r#", "(", "{ [", "_", "\"\\u{41", "'\\u{41}", "'a\\x41"])
        tail = rng.choice(["", "", "x", " ", "'", "\"", "*/", "*", "}"])
        t = t + rng.choice(["", " ", "\n"]) + opener + rng.choice(UNI) + rng.choice(["", rng.choice(UNI), "a"]) + tail
    elif kind == "delim":
        for _ in range(rng.choice([1, 1, 2, 3])):
            op = rng.choice("idr")
            pos = [i for i, ch in enumerate(t) if ch in DELIMS]
            if op == "i" or not pos:
                p = rng.randrange(len(t) + 1); t = t[:p] + rng.choice(DELIMS) + t[p:]
            elif op == "d":
                p = rng.choice(pos); t = t[:p] + t[p + 1:]
            else:
                p = rng.choice(pos); t = t[:p] + rng.choice(DELIMS) + t[p + 1:]
    elif kind == "op-glue":
        # an operator (prefix) glued to a comment / literal / multi-byte char: before a closing delimiter,
        # at the end of the text, after `#`, or between two tokens
        for _ in range(rng.choice([1, 1, 2])):
            g = rng.choice(OP_PREFIXES) + rng.choice(GLUE)
            where = rng.choice(["close", "close", "eof", "attr", "between"])
            pos = [i for i, ch in enumerate(t) if ch in ")}]"]
            if where == "close" and pos:
                p = rng.choice(pos); t = t[:p] + rng.choice(["", " ", "a "]) + g + t[p:]
            elif where == "eof":
                t = t + rng.choice(["", " ", "\n"]) + g
            elif where == "attr":
                p = rng.randrange(len(t) + 1); t = t[:p] + "#" + rng.choice(GLUE) + "[test]" + t[p:]
            else:
                import re
                ms = [m.end() for m in re.finditer(r"\w+|[^\w\s]", t)] or [len(t)]
                p = rng.choice(ms); t = t[:p] + " " + g + t[p:]
    elif kind == "trunc":
        t = t[:rng.randrange(n + 1)]
    elif kind == "trunc-open":
        a = rng.randrange(n + 1)
        t = t[a:a + rng.randrange(1, 200)]
    else:
        for _ in range(3):
            _, b = mutate(rng, t, others)
            t = b.decode()
        return kind, t.encode()
    return kind, t.encode()


# ---- Joint punctuation left as the LAST token of a stream: the lexer decides Joint/Alone from the next
# character before comments are stripped, so an operator (prefix) glued to a comment, placed before a
# closing delimiter / EOF, reaches the parser as a Joint punct with nothing after it.
PUNCTS = list(";:/,*+-<>=.!%&^|_#")
OPS = ["::", "==", "!=", "<=", ">=", "&&", "||", "->", "=>", "<-", "+=", "-=", "*=", "/=", "%=", "&=", "|=", "^=", "<<", ">>",
       "<<=", ">>=", "..", "..=", "**", "#!", "#["]
OP_PREFIXES = sorted(set(PUNCTS + [o[:k] for o in OPS for k in range(1, len(o))] + OPS))
GLUE = ["// c\n", "//\n", "// c", "/* c */", "/**/", "/* a\n b */", "/// d\n", "//! d\n", "\"s\"", "'c'", "é", "😀", "\u2028", "\u00a0"]


def glued(op, glue, ctx):
    """one input of the class: `op` directly followed by `glue`, in context number ctx"""
    g = op + glue
    # every context starts with a module kind: without one the parser stops at its first token
    return ["script; fn main() { a %s}" % g, "script; fn main() { foo(a %s) }" % g, "library; fn f() { let x = [a %s]; }" % g,
            "library; fn f() {} %s" % g, "script; %s" % g, "library; %s[test] fn f() {}" % g, "library; #%s[test] fn f() {}" % glue,
            "script; fn main() { let x = a %s b; }" % g, "library; fn f() { let x = a %s\n}" % g, "contract; struct S { x: u64 %s}" % g,
            "library; impl A { fn f(self) %s}" % g, "%s" % g][ctx % 12]


def glue_corpus():
    """deterministic always-on cases: every operator prefix x line/block comment x every context,
    plus literals and multi-byte characters as glue in the closing-delimiter contexts"""
    out = []
    for op in OP_PREFIXES:
        for ctx in range(12):
            out.append(glued(op, GLUE[(ctx + len(op)) % 2 * 3], ctx))       # `// c\n` or `/* c */`
        for gl in GLUE[2:]:
            out.append(glued(op, gl, 0)); out.append(glued(op, gl, 3))
    return [t.encode() for t in out]


def soup(rng):
    k = rng.choice([1, 2, 3, 5, 8, 13, 30, 80])
    sep = rng.choice(["", "", " ", " ", "\n"])
    toks = [rng.choice(VOCAB) for _ in range(k)]
    if rng.random() < 0.4:
        # bias: operator prefixes glued to comments / literals, also as the last token and before a closer
        for _ in range(rng.choice([1, 1, 2, 3])):
            toks.insert(rng.randrange(len(toks) + 1), rng.choice(OP_PREFIXES) + rng.choice(GLUE) + rng.choice(["", "", ")", "}", "]"]))
        if rng.random() < 0.5:
            toks.append(rng.choice(OP_PREFIXES) + rng.choice(GLUE[:5]))
    kind = rng.choice(["", "script; ", "library; ", "script; fn main() { ", "library; fn f() { let x = "])
    return (kind + sep.join(toks)).encode()


def key_of(b):
    return "in_" + (b.hex() if len(b) <= 24 else "sha_" + hashlib.sha256(b).hexdigest()[:24])


def run_harness(binp, inputs):
    """inputs: list of bytes. Returns list of 5-tuples of strings (nbytes, scalars, ucls, lex, parse)."""
    chunks = [inputs[i::NCPU] for i in range(NCPU)]
    import concurrent.futures as cf

    def one(ch):
        if not ch: return []
        inp = "".join((b.hex() or "-") + "\n" for b in ch)
        rc, out = rust.run(binp, input=inp, timeout=1500)
        lines = out.split("\n")
        if rc != 0 or not lines or lines[0] != "ascii-ok":
            raise RuntimeError("harness c16 failed rc=%s: %s" % (rc, out[-1500:]))
        rows = [l.split("\t") for l in lines[1:] if l]
        if len(rows) != len(ch) or any(len(r) != 5 for r in rows):
            raise RuntimeError("harness c16: %d result lines for %d inputs" % (len(rows), len(ch)))
        return rows
    with cf.ThreadPoolExecutor(max_workers=NCPU) as ex:
        parts = list(ex.map(one, chunks))
    res = [None] * len(inputs)
    for i, part in enumerate(parts):
        for j, row in enumerate(part):
            res[i + j * NCPU] = row
    return res


def shrink(binp, b, pred):
    """greedy ddmin on scalars; pred(row) says whether the failure is still there"""
    s = list(b.decode())
    chunk = max(1, len(s) // 2)
    rounds = 0
    while chunk >= 1 and rounds < 40:
        rounds += 1
        cands = [s[:i] + s[i + chunk:] for i in range(0, len(s), chunk)]
        cands = [c for c in cands if len(c) < len(s)]
        if not cands: break
        rows = run_harness(binp, ["".join(c).encode() for c in cands])
        hit = next((c for c, r in zip(cands, rows) if pred(r)), None)
        if hit is not None:
            s = hit
            chunk = min(chunk, max(1, len(s) // 2))
        elif chunk == 1: break
        else: chunk //= 2
    return "".join(s).encode()


def sw_files():
    fs = sorted(glob.glob(os.path.join(REPO, "**", "*.sw"), recursive=True))
    return [f for f in fs if "/target/" not in f and os.path.isfile(f)]


def run(ctx):
    ctx.level = "proof"
    ok, out = coq.check_props(ctx, "C16", extra_targets=["C16/Judge.vo", "C16/Orig.vo"])
    if not ok:
        ctx.log(out[-3000:])
    binp, bout = rust.build("c16")
    if binp is None:
        ctx.violation("harness-build", {"log": bout[-4000:]}, "harness c16 does not build against /repo", no_input=True)
        return
    rng = ctx.rng
    MODEL_CAP = MODEL_CAP_QUICK if ctx.quick else MODEL_CAP_THOROUGH
    # ---------------- inputs
    files = sw_files()
    texts = []
    for f in files:
        try:
            texts.append((f, open(f, "rb").read()))
        except OSError:
            pass
    cases = []   # (origin, bytes)
    for ln in open(os.path.join(ROOT, "corpus", "C16", "regress.txt"), encoding="utf-8"):
        ln = ln.split("#")[0].strip()
        if ln:
            cases.append(("corpus", b"" if ln == "-" else bytes.fromhex(ln)))
    for b in glue_corpus():
        cases.append(("corpus:op-glue", b))
    ncorpus = len(cases)
    for f, b in texts:
        cases.append(("file:" + os.path.relpath(f, REPO), sanitize(b)))
    nfiles = len(texts)
    strs = [b.decode("utf-8", "replace") for _, b in texts]
    small = [t for t in strs if 0 < len(t) <= 6000]
    nmut = 3000 if ctx.quick else 60000
    nsoup = 1000 if ctx.quick else 20000
    wmax = 700 if ctx.quick else 1800
    kinds = {}
    for _ in range(nmut):
        base = window(rng, rng.choice(small), rng.choice([60, 200, wmax]))
        others = [window(rng, rng.choice(small), 300)]
        k, b = mutate(rng, base, others)
        if rng.random() < 0.6 and not b.lstrip()[:9].split(b";")[0] in (b"script", b"library", b"contract", b"predicate"):
            # a window cut out of a file has no module kind and the parser would stop at its first token
            b = rng.choice([b"script;\n", b"library;\n", b"contract;\n"]) + rng.choice([b"", b"fn f() {\n", b"impl A {\n"]) + b
        kinds[k] = kinds.get(k, 0) + 1
        cases.append(("mut:" + k, sanitize(b)))
    for _ in range(nsoup):
        cases.append(("soup", sanitize(soup(rng))))
    kinds["soup"] = nsoup
    # ---------------- implementation
    try:
        rows = run_harness(binp, [b for _, b in cases])
    except RuntimeError as e:
        ctx.violation("harness-run", {"log": str(e)[-3000:]}, "harness c16 failed to run", no_input=True)
        return
    ctx.log("harness: %d inputs (%d corpus, %d files, %d mutants, %d soups)" % (len(cases), ncorpus, nfiles, nmut, nsoup))
    # ---------------- judge in Coq
    items = []
    nmodel = 0
    for (origin, b), r in zip(cases, rows):
        wm = len(b) <= MODEL_CAP
        nmodel += wm
        items.append((len(b) * (len(b) if wm else 1) // 1000 + len(b) // 50 + 1,
                      "(%s, %s, %s, %s, %s, %s)" % (r[0], r[1], r[2], "true" if wm else "false", r[3], r[4])))
    # balance shards by estimated cost
    nsh = NCPU
    order = sorted(range(len(items)), key=lambda i: -items[i][0])
    load = [0] * nsh
    assign = [[] for _ in range(nsh)]
    for i in order:
        k = load.index(min(load))
        load[k] += items[i][0]
        assign[k].append(i)
    shards = []
    for k in range(nsh):
        defs = "\n".join("Definition c%d : case := %s." % (j, items[i][1]) for j, i in enumerate(assign[k]))
        shards.append("%s\nEval vm_compute in (judge_all repaired [%s])." % (defs, ";".join("c%d" % j for j in range(len(assign[k])))))
    try:
        res = coq.run_cases(ctx, "c16", "From Coq Require Import Uint63.\nFrom SwayV Require Import Base.Util C16.Model C16.Spec C16.Judge.\nOpen Scope uint63_scope.", shards, timeout=2400)
    except RuntimeError as e:
        ctx.violation("model-eval", {"log": str(e)[-3000:]}, "C16 model/judge could not be evaluated (correspondence C16.corr/lex_stream_exact not checked)", no_input=True)
        return
    codes = [None] * len(cases)
    for k in range(nsh):
        got = res[k][0] if res[k] else []
        if len(got) != len(assign[k]):
            ctx.violation("model-eval", {"shard": k, "got": len(got), "want": len(assign[k])}, "C16 judge returned a wrong number of results", no_input=True)
            return
        for i, c in zip(assign[k], got):
            codes[i] = (int(c[0]), int(c[1]))
    # ---------------- decision
    hl, hp = {}, {}
    corr = []
    ties = []
    reported = set()
    for (origin, b), r, (lc, pc) in zip(cases, rows, codes):
        hl[LEXC[lc]] = hl.get(LEXC[lc], 0) + 1
        hp[PARC[pc]] = hp.get(PARC[pc], 0) + 1
        bad = []
        if lc in (2, 3): bad.append(("lexer", LEXC[lc], lambda row, lc=lc: (row[3] == "XLexPanic") if lc == 2 else False))
        if pc in (2, 3, 4) and lc != 2:
            bad.append(("parser", PARC[pc], lambda row, pc=pc: row[4].startswith("XParsePanic") and row[3] != "XLexPanic" if pc == 2 else False))
        for who, what, pred in bad:
            mb = b
            if what.endswith("panic") and len(reported) < 12:
                try: mb = shrink(binp, b, pred)
                except RuntimeError: mb = b
            key = key_of(mb)
            if key in reported: continue
            reported.add(key)
            ctx.violation(key, {"input_hex": mb.hex(), "input_text": mb.decode("utf-8", "replace")[:400], "origin": origin,
                                "original_input_hex": b.hex() if len(b) < 4000 else None, "lex": r[3][:600], "parse": r[4][:600]},
                          "%s: %s on input %r (from %s)" % (who, what, mb.decode("utf-8", "replace")[:80], origin))
        if pc == 5 and len(ties) < 5:
            ties.append((key_of(b), {"input_hex": b.hex()[:4000], "origin": origin, "lex": r[3][:1500], "parse": r[4][:600]}))
        if lc in (1, 4, 5):
            corr.append((key_of(b), {"input_hex": b.hex()[:4000], "origin": origin, "impl_lex": r[3][:1500], "code": LEXC[lc]}))
    for key, rep in corr[:5]:
        ctx.violation(key, dict(rep, correspondence="C16.corr/lex_stream_exact"),
                      "lexer model and lex_commented differ (%s) although every reported span is in bounds; theorems C16_lex_no_panic / C16_lex_spans_in_bounds no longer tied to the code" % rep["code"],
                      no_input=True)
    for key, rep in ties:
        ctx.violation(key, dict(rep, correspondence="C16.tie/parser_spans_derived"),
                      "a parser diagnostic span is in bounds but is not built by join/start/end from the token spans, lexer diagnostics and end-of-stream spans of its input: the structural statement C16_judge_parse_accepts about the parser no longer holds",
                      no_input=True)
    if not ok:
        ctx.violation("proof", {"theorems": [o for o in ctx.obligations if not o[1]], "log": out[-2000:]}, "C16 proofs do not check", no_input=True)
    distinct = len({b for o, b in cases if len(b) >= 8})
    sizes = sorted(len(b) for _, b in cases)
    nspans_lex = sum(r[3].count("X") + r[4].count(";") for r in rows)
    ctx.coverage.update({
        "checker_cmd": "make -C coq C16/Props.vo C16/Orig.vo C16/Judge.vo (coqc 8.16.1, full .vo build) + coqc vm_compute judge over harness output",
        "trusted_base": ["Coq 8.16.1 kernel + vm_compute", "harness/src/bin/c16.rs (flattening of the token tree, printing, catch_unwind)",
                         "props/c16.py (input generation, sharding; the verdict per case is computed in Coq)",
                         "Unicode tables (char::is_whitespace, unicode-xid) are parameters of the model: theorems hold for every table; per case the judge uses the class bits the real functions report",
                         "the parser is NOT modelled: parse_file is only run (no panic); its diagnostics' spans are checked by the proved in-bounds oracle and by the proved `derived` decision (each is join/start/end of token spans, lexer diagnostics or Parser::emit_error end-of-stream spans of that input)"],
        "evaluations": len(cases), "distinct_nontrivial": distinct,
        "rule": "distinct by byte content; non-trivial = at least 8 bytes. Inputs: regression corpus, every .sw file under /repo, mutants of random windows of those files (byte/token insertion+deletion, splicing, unicode insertion incl. multi-byte chars at the end of unclosed comments/strings/chars/escapes, unbalanced delimiters, truncation, operator prefixes glued to comments/literals/multi-byte chars before closers, EOF, after `#` and between tokens) and token soups; the regression corpus includes every punctuation char and operator prefix glued to a line/block comment in 12 contexts",
        "samples": [{"origin": o, "input": b.decode("utf-8", "replace")[:120], "lex": LEXC[c[0]], "parse": PARC[c[1]]}
                    for (o, b), c in list(zip(cases, codes))[ncorpus + nfiles:ncorpus + nfiles + 4]],
        "inputs": {"corpus": ncorpus, "repo_sw_files": nfiles, "mutants": nmut, "soups": nsoup, "mutation_kinds": kinds,
                   "bytes_min_median_max": [sizes[0], sizes[len(sizes) // 2], sizes[-1]]},
        "model_compared": nmodel, "model_cap_bytes": MODEL_CAP,
        "model_cap_note": "inputs above %d bytes are checked for no-panic and by the proved span oracle only (the model's boundary test is linear, so the model is quadratic in the input size); the exact stream comparison with the model runs on all others" % MODEL_CAP,
        "lexer_judgements": hl, "parser_judgements": hp,
        "impl_lex_outcomes": {"ok": sum(r[3].startswith("XLexOk") for r in rows), "err": sum(r[3].startswith("XLexErr") for r in rows),
                              "panic": sum(r[3].startswith("XLexPanic") for r in rows)},
        "impl_parse_outcomes": {"parsed": sum(r[4].startswith("XParse 1") for r in rows), "diagnostics": sum(r[4].startswith("XParse 0") for r in rows),
                                "panic": sum(r[4].startswith("XParsePanic") for r in rows)},
        "spans_checked_approx": nspans_lex,
        "explanation": "Level proof for the lexer (all inputs, all Unicode class tables): the model of the repaired token.rs never panics and every span it produces is in bounds on char boundaries; the original span computations are kept and refuted (Orig.v). Partial for the parser: not modelled; run under catch_unwind and its diagnostic spans checked by the proved oracle on the generated inputs only.",
    })
    ctx.assumptions += ["model = code (token.rs) is established by exact token/error stream comparison on the generated inputs only",
                        "parser: validated on the generated inputs, not proved",
                        "invalid UTF-8 never reaches the lexer (&str); byte-level mutants are sanitised with U+FFFD first"]
