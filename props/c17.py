"""C17 — the compiler never crashes on any package.
No model of the whole compiler exists, so no theorem states this property; what Coq contributes are the
no-panic / totality theorems of the modelled cores (collected from the other properties' Props.v on every
run). The failing-input search: type-, name- and structure-level mutations of corpus and seed programs,
compiled through the full forc pipeline under catch_unwind (harness c17)."""
import os, re, glob, json, shutil, hashlib, concurrent.futures as cf
from vlib import coq, rust, sway
from vlib.core import ROOT, REPO, NCPU

TYPES = ["u8", "u16", "u32", "u64", "u256", "b256", "bool", "str", "raw_ptr", "raw_slice"]
TOKEN = re.compile(r"[A-Za-z_][A-Za-z0-9_]*|0x[0-9a-fA-F_]+|\d[\d_]*|\s+|.", re.S)

SEEDS = {
 "seed_storage_array": "contract;\nstorage { a: [u64; 2] = [1, 2] }\nabi A { fn f(); }\nimpl A for Contract { fn f() {} }\n",
 "seed_u256_mod_zero": "library;\nconst A: u256 = 0x1u256 % 0x0u256;\npub fn f() -> u256 { A }\n",
 "seed_b256_cmp_const": "library;\nconst A: bool = 0x0000000000000000000000000000000000000000000000000000000000000001 > 0x0000000000000000000000000000000000000000000000000000000000000002;\npub fn f() -> bool { A }\n",
 "seed_u256_match_big_literal": "library;\n#[inline(never)]\nfn id(x: u256) -> u256 { x }\n#[test]\nfn t() { match id(0x1u256) { 0xf8861d1e00000000000000000000000000000000u256 => { log(1u64); } _ => { log(2u64); } } }\n",
 "seed_unclosed_comment_multibyte": "library;\n/*é",
 "seed_storage_explicit_key_overflow": "contract;\nstorage { a in 0xffffffffffffffffffffffffffffffffffffffffffffffffffffffffffffffff: (b256, b256) = (b256::zero(), b256::zero()) }\nabi A { fn f(); }\nimpl A for Contract { fn f() {} }\n",
 "seed_shift_huge_const": "library;\nconst A: u256 = 0x1u256 << 0xFFFFFFFFFFFFu64;\npub fn f() -> u256 { A }\n",
}

def norm_site(site):
    """file of the panic site relative to the repository root, without line number (stable key)"""
    f = site.rsplit(":", 1)[0]
    m = re.search(r"((?:sway-[a-z-]+|forc[a-z-]*|swayfmt)/.*)$", f)
    return m.group(1) if m else f

# multi-module template packages: {file: text}; entry is lib.sw
TEMPLATES = {
 "tpl_shapes": {
  "lib.sw": "library;\npub mod shapes;\npub mod user;\n",
  "shapes.sw": "library;\npub struct Point { pub x: u64, pub y: u64, z: u64 }\nimpl Point { pub fn new(x: u64, y: u64) -> Self { Self { x, y, z: 0 } } pub fn z(self) -> u64 { self.z } }\npub enum Shape { Dot: Point, Line: (Point, Point), Empty: () }\npub trait Area { fn area(self) -> u64; }\nimpl Area for Shape { fn area(self) -> u64 { match self { Shape::Dot(_) => 0, Shape::Line((a, b)) => a.x + b.x, Shape::Empty => 0, } } }\n",
  "user.sw": "library;\nuse ::shapes::{Point, Shape, Area};\npub fn f(p: Point) -> u64 { let Point { x, y, .. } = p; x + y }\npub fn g(s: Shape) -> u64 { match s { Shape::Dot(Point { x, y, .. }) => x + y, Shape::Line((Point { x, .. }, b)) => x + b.y, Shape::Empty => s.area(), } }\npub fn m(p: Point) -> u64 { match p { Point { x: 0, y, .. } => y, Point { x, y, .. } => x + y, } }\npub fn n(q: (Point, Point)) -> u64 { match q { (Point { x, .. }, Point { y, .. }) => x + y, } }\npub fn o(s: Shape) -> u64 { if let Shape::Dot(Point { x, y, .. }) = s { x + y } else { 0 } }\npub struct Wrap { pub p: Point, pub k: u64 }\npub fn w(v: Wrap) -> u64 { match v { Wrap { p: Point { x, y, .. }, k } => x + y + k, } }\n#[test]\nfn t() { assert(f(Point::new(1, 2)) == 3); assert(g(Shape::Empty) == 0); assert(m(Point::new(0, 5)) == 5); }\n",
 },
 "tpl_generic": {
  "lib.sw": "library;\npub mod boxes;\npub mod uses;\n",
  "boxes.sw": "library;\npub struct Boxed<T> { pub v: T, pub n: u64 }\nimpl<T> Boxed<T> { pub fn get(self) -> T { self.v } }\npub enum Either<A, B> { L: A, R: B }\npub const LIMIT: u64 = 7;\npub fn pick<A>(e: Either<A, A>) -> A { match e { Either::L(a) => a, Either::R(b) => b, } }\n",
  "uses.sw": "library;\nuse ::boxes::*;\npub fn h(b: Boxed<u64>) -> u64 { let Boxed { v, n } = b; if n > LIMIT { v } else { pick(Either::L(v)) } }\npub fn k(e: Either<Boxed<bool>, u8>) -> u64 { match e { Either::L(Boxed { v: true, n }) => n, Either::L(Boxed { v: false, .. }) => 0, Either::R(x) => x.as_u64(), } }\npub fn j(b: Boxed<u64>) -> u64 { match b { Boxed { v, n } => v + n, } }\n#[test]\nfn t() { assert(h(Boxed { v: 3, n: 9 }) == 3); }\n",
 },
 "tpl_contract": {
  "main.sw": "contract;\nmod data;\nuse data::{Rec, Kind};\nstorage { r: Rec = Rec { a: 1, k: Kind::A }, n: u64 = 5 }\nabi C { #[storage(read)] fn get() -> u64; #[storage(write)] fn set(r: Rec); }\nimpl C for Contract {\n #[storage(read)] fn get() -> u64 { let Rec { a, k } = storage.r.read(); match k { Kind::A => a, Kind::B(x) => x + storage.n.read(), } }\n #[storage(write)] fn set(r: Rec) { storage.r.write(r); }\n}\n",
  "data.sw": "library;\npub enum Kind { A: (), B: u64 }\npub struct Rec { pub a: u64, pub k: Kind }\n",
 },
}

def mutate(rng, src):
    toks = TOKEN.findall(src)
    idx = [i for i, t in enumerate(toks) if not t.isspace()]
    if not idx: return src, "none"
    kind = rng.choice(["type", "type", "del", "dup_line", "swap_ident", "big_lit", "del_span", "zero_lit", "ins_tok", "rename_ident", "rename_ident", "brace_field", "brace_field"])
    if kind == "type":
        c = [i for i in idx if toks[i] in TYPES]
        if c:
            i = rng.choice(c); toks[i] = rng.choice([t for t in TYPES if t != toks[i]])
    elif kind == "del":
        del toks[rng.choice(idx)]
    elif kind == "del_span":
        i = rng.choice(idx); del toks[i:i + rng.randint(2, 6)]
    elif kind == "dup_line":
        lines = src.split("\n"); i = rng.randrange(len(lines)); lines.insert(i, lines[i]); return "\n".join(lines), kind
    elif kind == "swap_ident":
        c = [i for i in idx if re.match(r"[A-Za-z_]", toks[i])]
        if len(c) >= 2:
            a, b = rng.sample(c, 2); toks[a], toks[b] = toks[b], toks[a]
    elif kind == "brace_field":
        # rename / duplicate / drop ONE field name inside a `Name { ... }` group (struct pattern or struct expression)
        groups = [m for m in re.finditer(r"\b[A-Z][A-Za-z0-9_]*(?:<[^<>{}]*>)?\s*\{([^{}]*)\}", src)]
        if groups:
            m = rng.choice(groups)
            inner = m.group(1)
            names = [n for n in re.finditer(r"\b[a-z_][a-z0-9_]*\b", inner)]
            if names:
                n = rng.choice(names)
                how = rng.choice(["zz", "zz", n.group(0) + "_x", rng.choice(names).group(0)])
                a, b = m.start(1) + n.start(), m.start(1) + n.end()
                return src[:a] + how + src[b:], kind
        kind = "rename_ident"
        c = [i for i in idx if re.match(r"[a-z_A-Z][A-Za-z0-9_]*$", toks[i])]
        if c: toks[rng.choice(c)] = "zz"
    elif kind == "rename_ident":
        # replace ONE occurrence of an identifier (field, variant, function, type name) by a fresh or a sibling name
        c = [i for i in idx if re.match(r"[a-z_A-Z][A-Za-z0-9_]*$", toks[i]) and toks[i] not in ("library", "contract", "script", "pub", "fn", "let", "match", "use", "mod", "struct", "enum", "impl", "trait", "self", "Self", "abi", "storage", "if", "else", "for", "while", "return", "const")]
        if c:
            i = rng.choice(c)
            toks[i] = rng.choice(["zz", "Zz", toks[rng.choice(c)], toks[i] + "2"])
    elif kind == "big_lit":
        c = [i for i in idx if re.match(r"\d", toks[i])]
        if c: toks[rng.choice(c)] = rng.choice(["18446744073709551615", "18446744073709551616", "0xffffffffffffffffffffffffffffffffffffffffffffffffffffffffffffffff", "340282366920938463463374607431768211456", "256", "64"])
    elif kind == "zero_lit":
        c = [i for i in idx if re.match(r"\d", toks[i])]
        if c: toks[rng.choice(c)] = "0"
    else:
        toks.insert(rng.choice(idx), rng.choice(["(", ")", "{", "}", "[", "]", "::", "<", ">", ";", ",", "&", "mut", "ref", "!", "-", "=>", "..", "_"]))
    return "".join(toks), kind

def corpus_sources(rng, n):
    roots = [os.path.join(REPO, "test/src/e2e_vm_tests/test_programs/should_pass/language"),
             os.path.join(REPO, "test/src/e2e_vm_tests/test_programs/should_fail")]
    cands = []
    for r in roots:
        cands += glob.glob(os.path.join(r, "*", "src", "main.sw")) + glob.glob(os.path.join(r, "*", "src", "lib.sw"))
    cands.sort(); rng.shuffle(cands)
    out = []
    for p in cands:
        d = os.path.dirname(os.path.dirname(p))
        if len(os.listdir(os.path.join(d, "src"))) != 1: continue
        try: toml = open(os.path.join(d, "Forc.toml")).read()
        except OSError: continue
        deps = re.findall(r"^(\w[\w-]*)\s*=\s*\{[^}]*path", toml, re.M)
        if any(x not in ("std",) for x in deps) or "reduced_std" in toml: continue
        src = open(p, encoding="utf-8", errors="replace").read()
        if len(src) > 6000: continue
        out.append((os.path.basename(d), os.path.basename(p), src))
        if len(out) >= n: break
    return out

def collect_core_theorems():
    """no-panic / totality theorems of the modelled cores, as present in the tree"""
    found = []
    for f in sorted(glob.glob(os.path.join(ROOT, "coq", "C*", "Props.v"))):
        pid = os.path.basename(os.path.dirname(f))
        if pid == "C17": continue
        src = coq.strip_comments(open(f, encoding="utf-8").read())
        for m in re.finditer(r"Theorem\s+(C\d+_\w*(?:no_panic|total|never_panic|no_internal_error)\w*)", src):
            found.append((pid, m.group(1)))
    return found

def run(ctx):
    ctx.level = "other"
    # ---- union of the cores' no-panic theorems: generated file, checked now
    thms = collect_core_theorems()
    body = ["(* generated on every run by props/c17.py: the no-panic obligations of the modelled cores *)"]
    for pid in sorted({p for p, _ in thms}):
        body.append("From SwayV Require Import %s.Props." % pid)
    for pid, t in thms:
        body.append("Print Assumptions %s." % t)
    coq.write_if_changed(os.path.join(coq.COQ, "C17", "Props.v"), "\n".join(body) + "\n")
    ok, out = coq.check_props(ctx, "C17")
    if not ok:
        # a core's totality theorem no longer checks: reported by that property's own check too
        ctx.log(out[-1500:])
    # ---- failing-input search
    binp, bout = rust.build("c17")
    if binp is None:
        ctx.violation("harness-build", {"log": bout[-3000:]}, "harness c17 does not build", no_input=True); return
    base = os.path.join(ctx.work, "pkgs")
    if os.path.exists(base): shutil.rmtree(base)
    cases = []
    for name, src in SEEDS.items():
        cases.append((name, "main.sw" if src.startswith("contract") else "lib.sw", src, "seed", name))
    ntpl = 12 if ctx.quick else 120
    for tname, files in TEMPLATES.items():
        entry = "main.sw" if "main.sw" in files else "lib.sw"
        cases.append((tname, entry, dict(files), "template", tname))
        # systematic: every field name inside every `Name { ... }` group renamed to a non-existing one
        nsys = 0
        for victim in sorted(files):
            for m in re.finditer(r"\b[A-Z][A-Za-z0-9_]*(?:<[^<>{}]*>)?\s*\{([^{}]*)\}", files[victim]):
                for n in re.finditer(r"\b[a-z_][a-z0-9_]*\b", m.group(1)):
                    if n.group(0) in ("pub", "fn", "self", "true", "false", "u64", "u8", "bool", "mut"): continue
                    a, b = m.start(1) + n.start(), m.start(1) + n.end()
                    f2 = dict(files); f2[victim] = files[victim][:a] + "zz" + files[victim][b:]
                    cases.append(("%s_s%d" % (tname, nsys), entry, f2, "brace_field_sys", tname)); nsys += 1
        for k in range(ntpl):
            f2 = dict(files)
            victim = ctx.rng.choice(sorted(f2))
            f2[victim], kind = mutate(ctx.rng, f2[victim])
            if ctx.rng.random() < 0.3:
                v2 = ctx.rng.choice(sorted(f2)); f2[v2], k2 = mutate(ctx.rng, f2[v2]); kind += "+" + k2
            cases.append(("%s_m%d" % (tname, k), entry, f2, kind, tname))
    nsrc, nmut = (10, 6) if ctx.quick else (120, 30)
    for cname, fname, src in corpus_sources(ctx.rng, nsrc):
        for k in range(nmut):
            m, kind = mutate(ctx.rng, src)
            if ctx.rng.random() < 0.3: m, k2 = mutate(ctx.rng, m); kind += "+" + k2
            cases.append(("m_%s_%d" % (re.sub(r"\W", "_", cname)[:30], k), fname, m, kind, cname))
    dirs = []
    for name, fname, src, kind, origin in cases:
        dirs.append(sway.write_pkg(base, name, src if isinstance(src, dict) else {fname: src}, entry=fname))
    def one(chunk):
        rc, o = rust.run(binp, chunk, timeout=1200)
        res = []
        for l in o.split("\n"):
            if l.startswith("{"):
                try: res.append(json.loads(l))
                except Exception: pass
        return res
    # regression corpus of whole packages that must be built in the RELEASE profile
    rel_dirs = []
    for cdir in sorted(glob.glob(os.path.join(ROOT, "corpus", "C17", "*", "Forc.toml"))):
        src = os.path.dirname(cdir); dst = os.path.join(base, "rel_" + os.path.basename(src))
        shutil.copytree(src, dst)
        t = open(os.path.join(dst, "Forc.toml")).read()
        t = re.sub(r'std\s*=\s*\{[^}]*\}', 'std = { path = "%s/sway-lib-std" }' % REPO, t)
        open(os.path.join(dst, "Forc.toml"), "w").write(t)
        rel_dirs.append(dst)
    if rel_dirs:
        rc, o = rust.run(binp, ["--release"] + rel_dirs, timeout=1800)
        for l in o.split("\n"):
            if l.startswith("{"):
                try: r = json.loads(l)
                except Exception: continue
                if r.get("status") == "panic":
                    slug = re.sub(r"[^a-z]+", "-", re.sub(r"\d+", "", r.get("msg", "").lower()))[:48].strip("-")
                    ctx.violation("panic@%s#%s" % (norm_site(r.get("site", "?")), slug), {"package": r["pkg"], "profile": "release", "panic": r},
                                  "compiler panicked (release profile) at %s: %s" % (r.get("site"), r.get("msg", "")[:200]))
    chunks = [dirs[i::NCPU] for i in range(NCPU) if dirs[i::NCPU]]
    with cf.ThreadPoolExecutor(max_workers=NCPU) as ex:
        results = [r for rs in ex.map(one, chunks) for r in rs]
    byd = {r["pkg"]: r for r in results}
    stats, kinds = {}, {}
    for (name, fname, src, kind, origin), d in zip(cases, dirs):
        r = byd.get(d)
        if r is None:
            # the harness process died (stack overflow / abort): that is a crash of the compiler too
            ctx.violation("abort-" + name, {"package": d, "source": src, "mutation": kind, "origin": origin},
                          "compiler process aborted (no result line) on %s" % name)
            stats["abort"] = stats.get("abort", 0) + 1; continue
        st = r["status"] if not r.get("ice") else "ice"
        stats[st] = stats.get(st, 0) + 1
        kinds[kind.split("+")[0]] = kinds.get(kind.split("+")[0], 0) + 1
        if kind == "template" and st != "ok":
            ctx.violation("template-broken-" + name, {"package": d, "result": r}, "C17 template package %s no longer builds (%s): its mutants exercise nothing" % (name, st), no_input=True)
        if st == "panic":
            # stable key: file + slug of the message (no line numbers, no values)
            slug = re.sub(r"[^a-z]+", "-", re.sub(r"\d+", "", r.get("msg", "").lower()))[:48].strip("-")
            key = "panic@%s#%s" % (norm_site(r.get("site", "?")), slug)
            ctx.violation(key, {"package": d, "source": src, "mutation": kind, "origin": origin, "panic": r},
                          "compiler panicked at %s: %s" % (r.get("site"), r.get("msg", "")[:200]))
        elif st == "ice":
            key = "ice:" + hashlib.sha256(re.sub(r"\d+", "N", r.get("msg", "")[:200]).encode()).hexdigest()[:10]
            ctx.violation(key, {"package": d, "source": src, "mutation": kind, "origin": origin, "error": r},
                          "internal compiler error: %s" % r.get("msg", "")[:300])
    distinct = len({hashlib.sha256(json.dumps(c[2], sort_keys=True).encode()).hexdigest() for c in cases})
    ctx.coverage.update({
        "explanation": "Partial. Coq part = the no-panic/totality theorems of the modelled cores, re-checked here: %s. Everything else is a search: mutated corpus/seed packages compiled through the full pipeline under catch_unwind; a panic, an abort or an 'internal compiler error' is a violation keyed by its panic site." % (", ".join(t for _, t in thms) or "(none present in this tree)"),
        "evaluations": len(cases), "distinct_nontrivial": distinct,
        "rule": "seed programs (known crash shapes) + single-file e2e should_pass/should_fail packages mutated at token level (type swap, token/line deletion or duplication, identifier swap, boundary literals, stray punctuation); distinct by source text",
        "samples": [{"name": c[0], "mutation": c[3], "origin": c[4], "source_head": (c[2] if isinstance(c[2], str) else json.dumps(c[2]))[:160]} for c in cases[len(SEEDS):len(SEEDS) + 3]],
        "outcomes": stats, "mutation_kinds": kinds, "core_theorems": [t for _, t in thms],
    })
    ctx.assumptions += ["the quantifier over all package sources is only sampled; the theorems cover the modelled cores only"]
