"""C23 — LSP document sync reproduces the client's text.
Theorems: coq/C23/Props.v (server over UTF-8 bytes = client semantics over scalars with UTF-16
positions; invalid ranges rejected unchanged; no panic).  Tie: the real
sway_lsp::core::document::{Documents, TextDocument} driven through random edit histories
(harness c23), every observed document judged inside Coq (C23/Judge.v) against the client
semantics (the property itself) and against the model (correspondence)."""
import hashlib, os
from vlib import coq, rust
from vlib.core import NCPU

U32MAX = 2 ** 32 - 1
ASCII = [ord(c) for c in "abcxyz 0{}/;=\t"]
BMP2 = [0xE9, 0xDF, 0x80, 0x7FF]                    # 2-byte
BMP3 = [0x20AC, 0x4E2D, 0x800, 0xFFFF, 0xE000, 0xD7FF, 0xFFFD]   # 3-byte
ASTRAL = [0x1F600, 0x10000, 0x10FFFF, 0x1F9D1]     # surrogate pairs in UTF-16


def gen_char(rng, flavour):
    r = rng.random()
    if flavour == "ascii" or r < 0.45: return rng.choice(ASCII)
    if r < 0.62: return rng.choice(BMP2)
    if r < 0.80: return rng.choice(BMP3)
    return rng.choice(ASTRAL)


def gen_text(rng, flavour, eol, maxlines, maxlen, lone_cr=False):
    """A text as a list of scalars. eol: 'lf' | 'crlf' | 'mixed'."""
    out = []
    nl = rng.randint(0, maxlines)
    for k in range(nl + 1):
        for _ in range(rng.randint(0, maxlen)):
            out.append(gen_char(rng, flavour))
        if lone_cr and rng.random() < 0.3:
            out.append(13)
            if rng.random() < 0.3: out.append(13)
        if k < nl or rng.random() < 0.3:
            e = eol if eol != "mixed" else rng.choice(["lf", "crlf"])
            out.extend([10] if e == "lf" else [13, 10])
    return out


def gen_pos(rng):
    l = rng.choice([0, 0, 0, 1, 1, 2, 2, 3, 4, 5, 7, U32MAX])
    c = rng.choice([0, 0, 1, 1, 2, 2, 3, 3, 4, 5, 6, 7, 8, 9, 10, 12, 99, U32MAX])
    return l, c


def gen_change(rng, flavour, eol, lone_cr):
    r = rng.random()
    if r < 0.08:
        return (None, gen_text(rng, flavour, eol, 3, 6, lone_cr))
    l1, c1 = gen_pos(rng)
    k = rng.random()
    if k < 0.45:      # same line, forward
        l2, c2 = l1, (c1 + rng.choice([0, 0, 1, 1, 2, 3, 5])) if c1 < U32MAX else c1
    elif k < 0.75:    # later line
        l2, c2 = (l1 + rng.choice([1, 1, 2, 3])) if l1 < U32MAX else l1, gen_pos(rng)[1]
    elif k < 0.87:    # inverted / arbitrary
        l2, c2 = gen_pos(rng)
    else:             # inverted on the same line
        l2, c2 = l1, max(0, c1 - rng.choice([1, 2, 3])) if c1 < U32MAX else 0
    t = rng.random()
    if t < 0.25: text = []                                       # deletion
    elif t < 0.7: text = gen_text(rng, flavour, eol, 0, 4)       # single-line insert
    else: text = gen_text(rng, flavour, eol, 2, 4, lone_cr)      # multi-line replacement
    return ((l1, c1, l2, c2), text)


def gen_case(rng, quick):
    flavour = rng.choice(["ascii", "mixed", "mixed", "mixed"])
    eol = rng.choice(["lf", "lf", "crlf", "crlf", "mixed"])
    lone_cr = rng.random() < 0.08
    mode = 1 if rng.random() < 0.15 else 0
    if rng.random() < 0.05: doc = []
    else: doc = gen_text(rng, flavour, eol, rng.choice([0, 1, 2, 3, 5]), rng.choice([2, 4, 8]), lone_cr)
    n = rng.randint(1, 5 if quick else 9)
    return (mode, doc, [gen_change(rng, flavour, eol, lone_cr) for _ in range(n)])


def enc(scalars):
    return "".join(map(chr, scalars)).encode("utf-8", "surrogatepass")


def case_line(case):
    mode, doc, chs = case
    parts = []
    for rg, text in chs:
        if rg is None: parts.append("F:" + enc(text).hex())
        else: parts.append("R:%d,%d,%d,%d:%s" % (rg + (enc(text).hex(),)))
    return ("B" if mode else "") + enc(doc).hex() + "|" + ";".join(parts)


def parse_case_line(line):
    mode = 1 if line.startswith("B") else 0
    doc, chs = line.lstrip("B").split("|")
    dec = lambda h: [ord(c) for c in bytes.fromhex(h).decode("utf-8")]
    out = []
    for ch in [c for c in chs.split(";") if c]:
        if ch.startswith("F:"): out.append((None, dec(ch[2:])))
        else:
            r, t = ch[2:].split(":")
            out.append((tuple(int(x) for x in r.split(",")), dec(t)))
    return (mode, dec(doc), out)


def nl(xs):
    return "[" + ";".join(map(str, xs)) + "]"


def coq_case(case, toks):
    mode, doc, chs = case
    cs = []
    for rg, text in chs:
        cs.append("(%s, %s)" % ("None" if rg is None else "Some (%d,%d,%d,%d)" % rg, nl(text)))
    os_ = []
    for t in toks:
        if t == "p": os_.append("OP")
        else:
            k, hx = t.split(":")
            os_.append("%s %s" % ({"d": "OD", "r": "OR", "x": "OX"}[k], nl(bytes.fromhex(hx))))
    return "(%d, %s, [%s], [%s])" % (mode, nl(doc), ";".join(cs), ";".join(os_))


CORPUS = [
    # the defect this property found on the original code: UTF-16 offset added as a byte count
    (0, [0xE9], [((0, 1, 0, 1), [120])]),
    (0, [0xE9], [((0, 0, 0, 1), [])]),
    (0, [0x1F600, 98], [((0, 2, 0, 2), [120])]),
    (0, [0x1F600, 98], [((0, 1, 0, 2), [120])]),                  # inside the surrogate pair: invalid
    (0, [0x1F600, 98], [((0, 0, 0, 1), [120]), ((0, 2, 0, 3), [])]),
    (0, [97, 0xE9, 10, 98], [((0, 2, 0, 2), [120]), ((0, 99, 1, 0), [])]),
    (0, [97, 98, 10, 99, 100], [((0, 4, 0, 4), [120])]),          # clamp to the end of line 0
    (0, [97, 13, 10, 98], [((0, 5, 1, 0), [120]), ((0, 2, 0, 2), [13, 10])]),   # CRLF: clamp before \r
    (0, [97, 98, 99], [((0, 1, 0, 0), [120]), ((5, 0, 5, 0), [121]), ((0, 9, 0, 9), [122])]),
    (0, [], [((0, 0, 0, 0), [0x1F600]), ((0, 2, 0, 2), [0x20AC]), (None, [])]),
    (0, [97, 10], [((1, 0, 1, 0), [98]), ((U32MAX, U32MAX, U32MAX, U32MAX), [99])]),
    (0, [97, 13, 98], [((0, 2, 0, 2), [120]), ((1, 0, 1, 0), [121])]),          # lone CR: malformed stream
    (1, [0x20AC, 10, 0x1F600], [((1, 2, 1, 2), [97]), ((0, 1, 1, 0), []), ((0, 2, 0, 1), [98]), ((0, 0, 0, 0), [99])]),
    (1, [97, 98], [((0, 1, 0, 1), [0xE9]), ((0, 2, 0, 2), [0x1F600]), ((0, 4, 0, 4), [122])]),
]

CODES = {0: "agree", 1: "model-differs", 2: "wrong-document", 3: "panic", 4: "valid-change-rejected",
         5: "invalid-accepted-or-altered", 6: "returned-text-differs", 7: "malformed-case"}
VIOL = (2, 3, 4, 5, 6)


def run_cases(ctx, binp, cases, tag):
    """Run the cases on the implementation and judge them in Coq. Returns (codes, lines) or None."""
    scratch = os.path.join(ctx.work, "scratch")
    inp = "\n".join(case_line(c) for c in cases) + "\n"
    rc, outp = rust.run(binp, args=[scratch], input=inp)
    lines = [l for l in outp.split("\n") if l.strip()]
    if rc != 0 or len(lines) != len(cases):
        ctx.violation("harness-run", {"rc": rc, "out": outp[-2000:]}, "harness c23 failed to run", no_input=True)
        return None
    items = []
    for case, l in zip(cases, lines):
        toks = l.split()
        if not toks or toks[0] != "o:" + enc(case[1]).hex():
            ctx.violation("harness-open", {"case": case_line(case), "out": l[:300]},
                          "document was not opened with the text given", no_input=True)
            return None
        items.append(coq_case(case, toks[1:]))
    ctx.log("implementation ran")
    nsh = min(NCPU, max(1, len(items) // 100))
    per = (len(items) + nsh - 1) // nsh
    shards = []
    for k in range(nsh):
        chunk = items[k * per:(k + 1) * per]
        if chunk:
            shards.append("Definition cs : list (N * list N * list cchange * list obs) := [\n%s\n].\nEval vm_compute in (judge_all cs)." % ";\n".join(chunk))
    try:
        res = coq.run_cases(ctx, tag, "From SwayV Require Import Base.Util C23.Utf8 C23.Model C23.Spec C23.Judge.\nOpen Scope N_scope.", shards)
    except RuntimeError as e:
        ctx.violation("model-eval", {"log": str(e)[-3000:]}, "C23 judge could not be evaluated (correspondence not checked)", no_input=True)
        return None
    codes = [tuple(c) for sh_ in res for c in sh_[0]]
    assert len(codes) == len(cases), (len(codes), len(cases))
    return codes, lines


def shrink(ctx, binp, case, step, line):
    """One-step reproduction: the document the server held before the failing step + that change."""
    mode, doc, chs = case
    if mode == 1 or step == 0:
        return case
    toks = line.split()
    prev = toks[step]              # toks[0] is o:, toks[k] the observation of change k-1
    if ":" not in prev:
        return case
    try:
        before = [ord(ch) for ch in bytes.fromhex(prev.split(":")[1]).decode("utf-8")]
    except Exception:
        return case
    small = (0, before, [chs[step]])
    r = run_cases(ctx, binp, [small], "c23shrink")
    if r and r[0][0][0] in VIOL:
        return small
    return case


def run(ctx):
    ctx.level = "proof"
    ok, out = coq.check_props(ctx, "C23", extra_targets=["C23/Judge.vo"])
    if not ok:
        ctx.log(out[-3000:])
    ctx.log("proofs checked: %s" % ok)
    binp, bout = rust.build("c23")
    if binp is None:
        ctx.violation("harness-build", {"log": bout[-4000:]}, "harness c23 does not build against /repo", no_input=True)
        return
    ncases = 8000 if ctx.quick else 80000
    cases = list(CORPUS)
    cdir = os.path.join(os.path.dirname(os.path.dirname(os.path.abspath(__file__))), "corpus", "C23")
    for f in sorted(os.listdir(cdir)) if os.path.isdir(cdir) else []:
        for l in open(os.path.join(cdir, f)):
            l = l.split("#")[0].strip()
            if l: cases.append(parse_case_line(l))
    if ctx.replay:
        import json
        rp = json.load(open(ctx.replay)).get("replay", {})
        cases = [parse_case_line(rp[k]) for k in ("case", "original_case") if rp.get(k)]
        ncases = len(cases)
    while len(cases) < ncases:
        cases.append(gen_case(ctx.rng, ctx.quick))
    ctx.log("harness built; %d cases" % len(cases))
    r = run_cases(ctx, binp, cases, "c23")
    if r is None:
        return
    codes, lines = r
    ctx.log("judged")
    hist, corr, nviol = {}, [], 0
    obs_kinds = {"accepted": 0, "rejected": 0, "panic": 0}
    for l in lines:
        for t in l.split()[1:]:
            obs_kinds["panic" if t == "p" else "accepted" if t[0] == "d" else "rejected"] += 1
    for (code, step), case, l in zip(codes, cases, lines):
        hist[CODES[code]] = hist.get(CODES[code], 0) + 1
        if code in VIOL:
            nviol += 1
            if nviol > 5: continue
            small = shrink(ctx, binp, case, step, l)
            cl = case_line(small)
            key = "c23_" + hashlib.sha256(cl.encode()).hexdigest()[:16]
            ctx.violation(key, {"case": cl, "doc": small[1], "changes": small[2], "mode": small[0],
                                "original_case": case_line(case), "step": step, "observed": l[:2000]},
                          "document sync: %s at change %d of `%s` (doc scalars %s)" % (CODES[code], step, cl[:200], small[1][:40]))
        elif code != 0:
            corr.append((case, step, code, l))
    for case, step, code, l in corr[:5]:
        cl = case_line(case)
        ctx.violation("c23corr_" + hashlib.sha256(cl.encode()).hexdigest()[:16],
                      {"case": cl, "step": step, "observed": l[:2000], "correspondence": "C23 Model.apply_change = TextDocument::apply_change"},
                      "model and implementation differ (%s at change %d) while the property holds on this input; theorems C23_* no longer tied to the code" % (CODES[code], step),
                      no_input=True)
    if not ok:
        ctx.violation("proof", {"theorems": [o for o in ctx.obligations if not o[1]], "log": out[-2000:]},
                      "C23 proofs do not check", no_input=True)

    def nontrivial(c):
        return len(c[2]) >= 2 and any(x >= 0x80 for x in c[1] + [y for _, t in c[2] for y in t])
    distinct = len({case_line(c) for c in cases if nontrivial(c)})
    nchanges = sum(len(c[2]) for c in cases)
    ctx.coverage.update({
        "checker_cmd": "make -C coq C23/Props.vo (coqc 8.16.1, full .vo build) + coqc vm_compute of C23/Judge.v over harness output",
        "trusted_base": ["Coq 8.16.1 kernel + vm_compute", "harness/src/bin/c23.rs (opens the document from a file as handle_open_file does, one update_text_document call per change, hex printing)",
                         "props/c23.py (case text)", "Spec.v as the reading of LSP 3.17 (UTF-16 units, three line terminators, clamp to line length)",
                         "Rust std str::chars/char_indices/is_char_boundary/String::replace_range are modelled (Utf8.v, Model.v), tied by exact comparison"],
        "evaluations": len(cases), "changes_applied": nchanges, "distinct_nontrivial": distinct,
        "rule": "random documents (0-6 lines of 0-8 scalars; ASCII / 2-byte / 3-byte / astral; LF, CRLF, mixed; 8%% with lone CR = malformed stream; 5%% empty) and histories of 1-%d changes (8%% full text; ranges forward on a line, multi-line, inverted, beyond line/document ends, u32::MAX, inside surrogate pairs; deletions, single- and multi-line texts); 15%% of histories sent as one batch; non-trivial = at least 2 changes and a non-ASCII scalar; distinct by input line" % (5 if ctx.quick else 9),
        "samples": [{"case": case_line(c), "observed": l[:200], "judgement": CODES[cd[0]]} for c, l, cd in list(zip(cases, lines, codes))[-4:]],
        "impl_observations": obs_kinds, "judgements": hist,
        "explanation": "Theorems (all documents and histories under wf_doc/wf_hist): server bytes = utf8(client document) after every notification, invalid ranges (inside a surrogate pair / start after end) rejected with the document unchanged and nothing else rejected, no panic for any valid UTF-8 document. Every observed document of the real server is compared in Coq with the client semantics (violation) and with the model (correspondence).",
    })
    ctx.assumptions += ["model = code is established by exact comparison on the generated histories only",
                        "DashMap locking (try_get_mut returning Locked under concurrent access) is not modelled; the harness is single-threaded",
                        "documents containing a lone CR are outside C23_sync_exact (server splits lines on LF only); for them only no-panic is proved and model=code compared"]
