"""C03 — behavioural candidates for conditional constant propagation (ccp): `cbr (cmp eq v, C), T, F` where the
true target T is ALSO reachable without passing the equality edge (join after an empty `then`, loop exit reached from
two places, ...) and v is used in or after T. Replacing v by C there is only right on the equality edge. Each module
calls f with v = C and with v != C, so a wrong replacement changes the returned value. IR text, written at run time."""

MAIN = """    entry fn main() -> u64 {
        entry():
        a = const u64 5
        b = const u64 9
        ra = call f(a)
        rb = call f(b)
        k = const u64 1000
        t = mul rb, k
        r = add ra, t
        ret u64 r
    }
"""

def cmp(order, v="p", c="c"):
    return "cmp eq %s %s" % ((v, c) if order == 0 else (c, v))

SHAPES = {}
for o in (0, 1):
    SHAPES["join_after_empty_then_%d" % o] = ("", """        entry(p: u64):
        c = const u64 5
        e = %s
        cbr e, join(), other()

        other():
        x = const u64 42
        y = add x, x
        br join()

        join():
        one = const u64 1
        r = add p, one
        ret u64 r
""" % cmp(o))
    SHAPES["join_with_memory_%d" % o] = ("        local mut u64 acc\n\n", """        entry(p: u64):
        l = get_local __ptr u64, acc
        z = const u64 0
        store z to l
        c = const u64 5
        e = %s
        cbr e, join(), other()

        other():
        x = const u64 7
        store x to l
        br join()

        join():
        y = load l
        r0 = add p, y
        r = mul r0, p
        ret u64 r
""" % cmp(o))
    SHAPES["nested_joins_%d" % o] = ("", """        entry(p: u64):
        c = const u64 5
        e = %s
        cbr e, join(), other()

        other():
        br join()

        join():
        c9 = const u64 9
        e2 = %s
        cbr e2, join2(), other2()

        other2():
        br join2()

        join2():
        two = const u64 2
        r0 = mul p, two
        r = add r0, p
        ret u64 r
""" % (cmp(o), cmp(1 - o, "p", "c9")))
    SHAPES["long_false_arm_%d" % o] = ("", """        entry(p: u64):
        c = const u64 5
        e = %s
        cbr e, join(), f1()

        f1():
        c2 = const u64 2
        q = cmp lt p c2
        cbr q, f2(), f3()

        f2():
        br join()

        f3():
        br join()

        join():
        r = add p, p
        ret u64 r
""" % cmp(o))
    SHAPES["computed_value_%d" % o] = ("", """        entry(p: u64):
        two = const u64 2
        v = mul p, two
        c = const u64 10
        e = %s
        cbr e, join(), other()

        other():
        br join()

        join():
        r = add v, p
        ret u64 r
""" % cmp(o, "v", "c"))
    SHAPES["loop_exit_two_ways_%d" % o] = ("        local mut u64 i\n\n", """        entry(p: u64):
        l = get_local __ptr u64, i
        z = const u64 0
        store z to l
        c = const u64 5
        e = %s
        cbr e, exit(), head()

        head():
        x = load l
        one = const u64 1
        x1 = add x, one
        store x1 to l
        c3 = const u64 3
        d = %s
        cbr d, exit(), head()

        exit():
        y = load l
        r0 = add p, y
        r = mul r0, p
        ret u64 r
""" % (cmp(o), cmp(o, "x1", "c3")))
    SHAPES["loop_continue_on_eq_%d" % o] = ("        local mut u64 i\n\n", """        entry(p: u64):
        l = get_local __ptr u64, i
        z = const u64 0
        store z to l
        br head()

        head():
        x = load l
        one = const u64 1
        x1 = add x, one
        store x1 to l
        c = const u64 5
        e = %s
        cbr e, tail(), body()

        body():
        w = load l
        w2 = add w, p
        store w2 to l
        br tail()

        tail():
        y = load l
        lim = const u64 20
        g = cmp lt y lim
        cbr g, head(), exit()

        exit():
        y2 = load l
        r = add y2, p
        ret u64 r
""" % cmp(o))


def write_all(outdir):
    import os
    os.makedirs(outdir, exist_ok=True)
    out = []
    for name, (locs, body) in sorted(SHAPES.items()):
        p = os.path.join(outdir, "ccp_%s.ir" % name)
        open(p, "w").write("script {\n" + MAIN + "\n    fn f(p: u64) -> u64 {\n" + locs + body + "    }\n}\n")
        out.append(p)
    return out


if __name__ == "__main__":
    import sys
    for p in write_all(sys.argv[1]): print(p)
