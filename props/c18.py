"""C18 — formatting is idempotent.  Level `other` (partial).
Proved (coq/C18/Props.v): the whole-text newline stages that end Formatter::format_module
(windows conversion idempotent; trailing-newline rule idempotent; unix conversion idempotent
outside the known class "contains \\r\\r\\n", refuted inside it).  Tied: those stages against
swayfmt::verif_newline_stage (hook) by exact comparison judged in Coq.  The property itself,
fmt(fmt x) = fmt x, is DECIDED PER INPUT on the real formatter: every .sw file of /repo (a
sample in the quick tier) and deterministic whitespace / comment / line-ending variants of it,
default and Windows newline style."""
import glob, hashlib, json, os, difflib, re, zlib
from vlib import coq, rust
from vlib.core import NCPU, REPO


# ---- deterministic variants of a source text (no randomness: a failing variant has a stable key)
def v_crlf(s): return s.replace("\r\n", "\n").replace("\n", "\r\n")
def v_trailws(s): return "\n".join(l + ("  " if i % 2 == 0 else "\t") for i, l in enumerate(s.split("\n")))
def v_blank(s): return s.replace("\n\n", "\n\n\n\n").replace(";\n", ";\n\n", 1)
def v_comment(s):
    out = []
    for i, l in enumerate(s.split("\n")):
        t = l.rstrip()
        if (t.endswith(";") or t.endswith("{") or t.endswith(",")) and "//" not in t and '"' not in t and "/*" not in t and "*/" not in t:
            out.append(t + " // c%d" % (i % 7))
        else:
            out.append(l)
    return "\n".join(out)
def v_dedent(s): return "\n".join(l.lstrip(" \t") for l in s.split("\n"))
def v_edges(s): return "\n\n  \n" + s.rstrip() + "\n\n\n"


# horizontal whitespace at token boundaries INSIDE lines: around `:` `,` `=>` `=`
_OPCH = set("<>!=+-*/%&|^:.")
_TOK = re.compile(r"( *)(=>|==|!=|<=|>=|\+=|-=|\*=|/=|<<=|>>=|->|::|:|,|=)( *)")

def _respace(line, mode, counter):
    """mode: 'tight' | 'wide' | 'mix' (alternate per occurrence). Lines with comments, strings or
    chars are left alone (the texts must stay lexically the same programs)."""
    if not line.strip() or any(x in line for x in ('//', '/*', '*/', '"', "'")) or line.lstrip().startswith("#"):
        return line
    ind = line[:len(line) - len(line.lstrip(" \t"))]
    body = line[len(ind):]
    def sub(m):
        tok = m.group(2)
        if tok not in (":", ",", "=>", "="):
            return m.group(0)
        counter[0] += 1
        md = mode if mode != "mix" else ("tight", "wide", "pre")[counter[0] % 3]
        before = body[m.start() - 1] if m.start() > 0 else ""
        after = body[m.end()] if m.end() < len(body) else ""
        if md == "tight":
            l = " " if (before in _OPCH and m.group(1)) else ""
            r = " " if (after in _OPCH and m.group(3)) else ""
            if m.end() == len(body): r = ""
            if m.start() == 0: l = ""
        elif md == "wide":
            l = "  " if tok != "," else " "
            r = "  " if m.end() < len(body) else ""
            if m.start() == 0: l = ""
        else:   # 'pre': space moved in front of the token
            l = " "
            r = "" if not (after in _OPCH) else " "
            if m.end() == len(body): r = ""
            if m.start() == 0: l = ""
        return l + tok + r
    return ind + _TOK.sub(sub, body)

def v_space(mode, subset):
    def f(s):
        counter = [0]
        out = []
        for l in s.split("\n"):
            pick = True if subset == "all" else (zlib.crc32(l.encode()) % 2 == 0)
            out.append(_respace(l, mode, counter) if pick else l)
        return "\n".join(out)
    return f

VARIANTS = [("base", lambda s: s, "aw"), ("crlf", v_crlf, "aw"), ("trailws", v_trailws, "a"), ("blank", v_blank, "a"),
            ("comment", v_comment, "a"), ("dedent", v_dedent, "a"), ("edges", v_edges, "a"),
            ("sp-tight", v_space("tight", "all"), "a"), ("sp-wide", v_space("wide", "all"), "a"),
            ("sp-mix", v_space("mix", "all"), "a"), ("sp-tight-half", v_space("tight", "half"), "a")]

CORPUS = [  # (name, source)
    ("crcrlf-comment", "library;\n// c\r\r\nfn f() {}\n"),            # known class: unix conversion not idempotent
    ("crcrlf-string", "library;\nfn f() {\n    let _x = \"a\r\r\nb\";\n}\n"),
    ("plain", "library;\n\nfn f() {\n    let x = 1;\n    let y = 2;\n}\n\nfn g() {}\n"),
    ("assoc-type", "library;\n\ntrait T {\n    type X;\n    fn f(self) -> Self::X;\n}\n"),
    ("empty-script", "script;\nfn main() {}\n"),
]


def thresholds():
    """The formatter's inline thresholds, read from the source under test."""
    txt = open(os.path.join(REPO, "swayfmt", "src", "constants.rs")).read()
    d = {m.group(1): int(m.group(2)) for m in re.finditer(r"pub const (DEFAULT_[A-Z_]+): usize = (\d+);", txt)}
    need = ["DEFAULT_MAX_LINE_WIDTH", "DEFAULT_FN_CALL_WIDTH", "DEFAULT_STRUCTURE_LIT_WIDTH", "DEFAULT_STRUCTURE_VAR_WIDTH",
            "DEFAULT_COLLECTION_WIDTH", "DEFAULT_CHAIN_WIDTH", "DEFAULT_SINGLE_LINE_IF_ELSE_WIDTH", "DEFAULT_SHORT_ARRAY_ELEM_WIDTH_THRESHOLD"]
    return {k: d[k] for k in need}      # KeyError = the constants moved: the check must be adapted


def _names(total, k):
    """k identifiers whose lengths sum to `total` (each >= 1), distinct first letters."""
    total = max(total, k)
    base, extra = divmod(total, k)
    return [chr(97 + i) * (base + (1 if i < extra else 0)) for i in range(k)]


def _spell(fields, how):
    """fields: list of (name, value). Spelling of `name: value, ...`."""
    sep = {"canon": (": ", ", "), "tight": (":", ","), "wide": ("  :  ", " ,  "), "pre": (" :", " ,"), "mixed": None}[how]
    if sep:
        return sep[1].join(n + sep[0] + v for n, v in fields)
    parts = []
    for i, (n, v) in enumerate(fields):
        parts.append(n + (":", "  :  ", " :")[i % 3] + v)
    return ", ".join(parts[:1]) + "".join((",", " ,  ")[i % 2] + p for i, p in enumerate(parts[1:]))

SPELLINGS = ["canon", "tight", "wide", "pre", "mixed"]


def synthetic(th):
    """Small programs whose decisive width sits within +-3 of an inline threshold, each in the
    canonical and in oddly spaced spellings. Returns (name, source)."""
    out = []
    W = th["DEFAULT_MAX_LINE_WIDTH"]
    def add(name, body, pre="struct Foo { a: u64, b: u64 }\n"):
        out.append((name, "library;\n\n" + body + "\n"))
    for d in range(-3, 4):
        # --- struct patterns / struct expressions around structure_lit_width (body) and structure_field_width (field)
        T = th["DEFAULT_STRUCTURE_LIT_WIDTH"] + d
        for k in (2, 3):
            # canonical body width = 3 + sum(len(field)) + 2*(k-1) + 1 ; field = name + ": " + value(1 char)
            names = _names(T - 3 - 3 * k - 2 * (k - 1) - 1, k)
            fields = [(n, "xyz"[i]) for i, n in enumerate(names)]
            for how in SPELLINGS:
                f = _spell(fields, how)
                tag = "lit%+d-k%d-%s" % (d, k, how)
                add("pat-let-" + tag, "fn main() {\n    let Foo { %s } = f;\n}" % f)
                add("pat-match-" + tag, "fn main() {\n    match p {\n        Foo { %s } => x,\n        _ => y,\n    }\n}" % f)
                add("pat-arg-" + tag, "fn g(Foo { %s }: Foo) {}" % f)
                add("pat-nested-" + tag, "fn main() {\n    let (Foo { %s }, w) = f;\n}" % f)
                add("expr-struct-" + tag, "fn main() {\n    let s = Foo { %s };\n}" % f)
        T = th["DEFAULT_STRUCTURE_VAR_WIDTH"] + d
        for how in SPELLINGS:
            f = _spell([("a" * max(1, T - 3), "x")], how)
            add("pat-field%+d-%s" % (d, how), "fn main() {\n    let Foo { %s } = f;\n}" % f)
            add("expr-field%+d-%s" % (d, how), "fn main() {\n    let s = Foo { %s };\n}" % f)
        # --- fn call arguments around fn_call_width, generic argument lists
        T = th["DEFAULT_FN_CALL_WIDTH"] + d
        k = 6
        args = _names(T - 2 * (k - 1), k)
        for how, sepc in (("canon", ", "), ("tight", ","), ("wide", " ,  ")):
            add("call%+d-%s" % (d, how), "fn main() {\n    let r = foo(%s);\n}" % sepc.join(args))
            add("generic%+d-%s" % (d, how), "fn main() {\n    let r = foo::<%s>(x);\n}" % sepc.join(a.upper() for a in args))
            add("tygeneric%+d-%s" % (d, how), "fn g(x: Bar<%s>) {}" % sepc.join(a.upper() for a in args))
        # --- collections around collection_width / short arrays
        T = th["DEFAULT_COLLECTION_WIDTH"] + d
        k = 8
        els = _names(T - 2 * (k - 1) - 2, k)
        for how, sepc in (("canon", ", "), ("tight", ","), ("wide", " ,  ")):
            add("tuple%+d-%s" % (d, how), "fn main() {\n    let t = (%s);\n}" % sepc.join(els))
            add("array%+d-%s" % (d, how), "fn main() {\n    let t = [%s];\n}" % sepc.join(els))
        T = th["DEFAULT_SHORT_ARRAY_ELEM_WIDTH_THRESHOLD"] + d
        for how, sepc in (("canon", ", "), ("tight", ","), ("wide", " ,  ")):
            add("shortarr%+d-%s" % (d, how), "fn main() {\n    let t = [%s];\n}" % sepc.join(["1" * max(1, T)] * 12))
        # --- if/else on one line around single_line_if_else_max_width
        T = th["DEFAULT_SINGLE_LINE_IF_ELSE_WIDTH"] + d
        n = max(2, T - len("if c {  } else {  }"))
        a, b = _names(n, 2)
        for how, eq in (("canon", " = "), ("tight", "="), ("wide", "  =  ")):
            add("ifelse%+d-%s" % (d, how), "fn main() {\n    let v%sif c { %s } else { %s };\n}" % (eq, a, b))
        # --- method chains around chain_width
        T = th["DEFAULT_CHAIN_WIDTH"] + d
        k = 4
        ms = _names(max(k, T - 1 - 3 * k), k)
        add("chain%+d" % d, "fn main() {\n    let v = x.%s;\n}" % ".".join(m + "()" for m in ms))
        # --- long && / || chains, where-clauses and fn signatures around max_width
        for how, sp in (("canon", " "), ("tight", ""), ("wide", "  ")):
            pre = "    let c%s=%s" % (sp, sp)
            k = 6
            ops = _names(W + d - len("    let c = ;") - 4 * (k - 1), k)
            add("andchain%+d-%s" % (d, how), "fn main() {\n%s%s;\n}" % (pre, " && ".join(ops)))
            add("orchain-call%+d-%s" % (d, how), "fn main() {\n    assert(%s);\n}" % (" ||" + sp).join(_names(th["DEFAULT_FN_CALL_WIDTH"] + d - 4 * (k - 1), k)))
            col, com = (":" + sp if how != "canon" else ": "), ("," + sp if how != "canon" else ", ")
            bounds = _names(W + d - len("fn g<T, U>(x: T, y: U) where T: , U:  {}") - 3, 3)
            bb = [b.capitalize() for b in bounds]
            add("where%+d-%s" % (d, how), "fn g<T%sU>(x%sT%sy%sU) where T%s%s + %s%sU%s%s {}" % (com, col, com, col, col, bb[0], bb[1], com, col, bb[2]))
            params = _names(W + d - len("fn g() {}") - 7 * 5 + 2, 5)
            add("fnsig%+d-%s" % (d, how), "fn g(%s) {}" % com.join(p + col + "u64" for p in params))
    return out


def scal(s):
    """Coq list literal of the chars; long texts as a concatenation of chunks (a 25k-element
    list literal overflows coqc's stack)."""
    cs = [str(ord(c)) for c in s]
    if len(cs) <= 1000:
        return "[" + ";".join(cs) + "]"
    return "(" + " ++ ".join("[" + ";".join(cs[i:i + 1000]) + "]" for i in range(0, len(cs), 1000)) + ")"


def stage_cases(rng, n, texts):
    alpha = ["a", "b", " ", "\r", "\r", "\n", "\n", "é", ";", "\r\n", "\r\r\n"]
    out = []
    for k in range(n):
        if texts and rng.random() < 0.1:
            t = rng.choice(texts)[:400]
            if rng.random() < 0.5:
                i = rng.randrange(len(t) + 1); t = t[:i] + rng.choice(["\r", "\r\r\n", "\r\n"]) + t[i:]
        else:
            t = "".join(rng.choice(alpha) for _ in range(rng.randint(0, 14)))
        raw = "".join(rng.choice(alpha) for _ in range(rng.randint(0, 8)))
        out.append((k % 6, t, raw))
    out += [(0, "\r\r\n", ""), (1, "\r\r\n", ""), (5, "a\r\r\nb", ""), (2, "a\nb", "\n"), (2, "a\nb", "\r\n"), (2, "a\nb", "x\r\ny\n"), (2, "a\r\nb", "")]
    return out


def run_fmt(binp, reqs):
    inp = "\n".join("F %s %s" % (st, src.encode("utf-8").hex()) for st, src in reqs) + "\n"
    rc, outp = rust.run(binp, input=inp, timeout=3000)
    lines = [l for l in outp.split("\n") if l.strip()]
    return rc, lines


def first_hunk(a, b):
    d = list(difflib.unified_diff(a.split("\n"), b.split("\n"), lineterm="", n=1))
    return "\n".join(d[2:14])


def run(ctx):
    ctx.level = "other"
    ok, out = coq.check_props(ctx, "C18", extra_targets=["C18/Judge.vo"])
    if not ok:
        ctx.log(out[-3000:])
    binp, bout = rust.build("c18")
    if binp is None:
        ctx.violation("harness-build", {"log": bout[-4000:]}, "harness c18 does not build against /repo", no_input=True)
        return

    # ---------------- inputs
    files = sorted(p for p in glob.glob(os.path.join(REPO, "**", "*.sw"), recursive=True) if "/target/" not in p)
    srcs, seen = [], set()
    for f in files:
        try:
            s = open(f, encoding="utf-8").read()
        except Exception:
            continue
        h = hashlib.sha256(s.encode()).hexdigest()
        if h in seen: continue
        seen.add(h)
        srcs.append((os.path.relpath(f, REPO), s))
    total_files = len(srcs)
    if ctx.replay:
        rp = json.load(open(ctx.replay)).get("replay", {})
        inputs = [(rp.get("origin", "replay"), "replay", rp.get("style", "a"), bytes.fromhex(rp["src_hex"]).decode("utf-8"))]
    else:
        if ctx.quick and len(srcs) > 400:
            srcs = ctx.rng.sample(srcs, 400)
        inputs = [(name, "corpus", st, s) for name, s in CORPUS for st in "au"]
        th = thresholds()
        syn = synthetic(th)
        if ctx.quick and len(syn) > 700:
            syn = ctx.rng.sample(syn, 700)
        inputs += [("synthetic/" + name, "threshold-edge", "a", s) for name, s in syn]
        for k, (f, s) in enumerate(srcs):
            for vname, fn, styles in VARIANTS:
                v = fn(s)
                for st in styles:
                    if st == "w" and ctx.quick and k % 4 != 0:
                        continue        # quick tier: the (known, systematic) Windows-style class on a quarter of the sample
                    inputs.append((f, vname, st, v))
    rc, lines = run_fmt(binp, [(st, s) for _, _, st, s in inputs])
    if rc != 0 or len(lines) != len(inputs):
        ctx.violation("harness-run", {"rc": rc, "n": len(lines), "expected": len(inputs)}, "harness c18 failed to run", no_input=True)
        return
    ctx.log("formatted %d inputs twice" % len(inputs))

    # ---------------- judge the non-fixpoint runs (known class decided in Coq) + final-newline rule on a sample
    stats = {}
    bad, sample_ok = [], []
    for inp, l in zip(inputs, lines):
        k = l.split(" ")[0]
        stats[k] = stats.get(k, 0) + 1
        if k in ("diff", "err2", "panic2"):
            bad.append((inp, l))
        elif k == "same" and len(sample_ok) < 150 and len(l) < 6000:
            sample_ok.append((inp, l))
    runs = bad + sample_ok
    items = ["(%s, %s)" % (scal(inp[3]), scal(bytes.fromhex(l.split(" ")[1]).decode("utf-8")[-4:])) for inp, l in runs]   # the trailing-newline rule only reads the end
    known_flags = []
    if items:
        nsh = min(NCPU, max(1, len(items) // 20))
        per = (len(items) + nsh - 1) // nsh
        shards = ["Definition cs : list (list N * list N) := [\n%s\n].\nEval vm_compute in (judge_runs cs)." % ";\n".join(items[k * per:(k + 1) * per])
                  for k in range(nsh) if items[k * per:(k + 1) * per]]
        try:
            res = coq.run_cases(ctx, "c18runs", "From SwayV Require Import Base.Util C18.Model C18.Spec C18.Judge.\nOpen Scope N_scope.", shards)
        except RuntimeError as e:
            ctx.violation("model-eval", {"log": str(e)[-3000:]}, "C18 judge could not be evaluated", no_input=True)
            return
        known_flags = [x for sh_ in res for x in sh_[0]]
        assert len(known_flags) == len(runs)
    is_true = lambda v: getattr(v, "head", v) == "true"
    no_final_nl = 0
    for (inp, l), fl in zip(runs, known_flags):
        if not is_true(fl[1]):
            no_final_nl += 1
            ctx.violation("final-newline-" + hashlib.sha256(inp[3].encode()).hexdigest()[:16],
                          {"origin": inp[0], "variant": inp[1], "style": inp[2], "src_hex": inp[3].encode().hex()},
                          "formatter output does not end with a newline (model: final_newline) for %s/%s" % (inp[0], inp[1]))
    dump = []
    for (inp, l), fl in zip(bad, known_flags[:len(bad)]):
        origin, vname, st, src = inp
        t = l.split(" ")
        kind = t[0]
        out1 = bytes.fromhex(t[1]).decode("utf-8")
        out2 = bytes.fromhex(t[2]).decode("utf-8") if kind == "diff" else None
        if is_true(fl[0]):
            key, what = "crcrlf", "source contains \\r\\r\\n (known class, C18_unix_idem_refuted)"
        elif st == "w" and kind == "diff" and "\r\n\r\n" in out1:
            key, what = "windows-style-blank-lines", "newline_style=Windows: blank lines kept by the first format are dropped by the second (newline map does not see CRLF sequences)"
        else:
            key = "%s-%s" % (hashlib.sha256(src.encode()).hexdigest()[:16], st)
            what = "%s variant=%s style=%s: %s" % (origin, vname, st, {"diff": "fmt(fmt x) != fmt x", "err2": "fmt x does not format again", "panic2": "formatting fmt x panics"}[kind])
        dump.append("finding: property=C18 key=%s %s" % (key, what))
        ctx.violation(key, {"origin": origin, "variant": vname, "style": st, "src_hex": src.encode().hex(), "kind": kind,
                            "first_hunk": first_hunk(out1, out2) if out2 is not None else None},
                      "not a fixpoint: " + what)
    if os.environ.get("C18_DUMP"):
        open(os.environ["C18_DUMP"], "w").write("\n".join(sorted(set(dump))) + "\n")

    # ---------------- stage correspondence (hook)
    texts = [bytes.fromhex(l.split(" ")[1]).decode("utf-8") for _, l in sample_ok[:40]]
    sc = stage_cases(ctx.rng, 1500 if ctx.quick else 12000, texts)
    inp = "\n".join("S %d %s %s" % (stg, t.encode().hex(), r.encode().hex()) for stg, t, r in sc) + "\n"
    rc, outp = rust.run(binp, input=inp)
    sl = [l for l in outp.split("\n") if l.strip()]
    corr = {"agree": 0, "differ": 0}
    if rc != 0 or len(sl) != len(sc):
        ctx.violation("harness-run-stages", {"rc": rc, "out": outp[-1000:]}, "harness c18 (stages) failed to run", no_input=True)
    else:
        items = []
        for (stg, t, r), l in zip(sc, sl):
            obs = bytes.fromhex(l.split(" ")[1]).decode("utf-8") if l.startswith("ok") and " " in l else ("" if l == "ok" or l == "ok " else None)
            if l.strip() == "ok": obs = ""
            if obs is None:
                ctx.violation("stage-%d-%s" % (stg, hashlib.sha256(t.encode()).hexdigest()[:12]), {"stage": stg, "text_hex": t.encode().hex(), "out": l},
                              "newline stage failed (%s)" % l[:40])
                continue
            items.append("(%d, %s, %s, %s)" % (stg, scal(t), scal(r), scal(obs)))
        nsh = min(NCPU, max(1, len(items) // 100))
        per = (len(items) + nsh - 1) // nsh
        shards = ["Definition cs : list (N * list N * list N * list N) := [\n%s\n].\nEval vm_compute in (judge_stages cs)." % ";\n".join(items[k * per:(k + 1) * per])
                  for k in range(nsh) if items[k * per:(k + 1) * per]]
        try:
            res = coq.run_cases(ctx, "c18stages", "From SwayV Require Import Base.Util C18.Model C18.Spec C18.Judge.\nOpen Scope N_scope.", shards)
            codes = [c for sh_ in res for c in sh_[0]]
            for c, it in zip(codes, items):
                corr["agree" if c == 0 else "differ"] += 1
                if c != 0 and corr["differ"] <= 3:
                    ctx.violation("stage-corr-" + hashlib.sha256(it.encode()).hexdigest()[:12], {"case": it[:2000], "correspondence": "C18 Model stages = swayfmt newline_style.rs"},
                                  "newline-stage model and implementation differ; theorems C18_* no longer tied to the code", no_input=True)
        except RuntimeError as e:
            ctx.violation("model-eval-stages", {"log": str(e)[-3000:]}, "C18 stage judge could not be evaluated", no_input=True)
    if not ok:
        ctx.violation("proof", {"theorems": [o for o in ctx.obligations if not o[1]], "log": out[-2000:]}, "C18 proofs do not check", no_input=True)

    applicable = sum(v for k, v in stats.items() if k in ("same", "diff", "err2", "panic2"))
    ctx.coverage.update({
        "explanation": "Partial: the formatter's per-node printers are not modelled. Proved in Coq (closed): the Windows newline conversion and the trailing-newline rule are idempotent, the Unix conversion is idempotent outside the known class (text contains \\r\\r\\n) and not inside it; these stage models are tied to swayfmt by exact comparison through a cfg-guarded hook. The property itself is decided by running the real Formatter::format twice on every applicable input: all distinct .sw files of /repo (%d; quick tier: a sample of 400) and 6 deterministic variants each (CRLF, trailing whitespace, extra blank lines, appended line comments, removed indentation, leading/trailing blank lines), newline_style Auto, plus Windows for base/CRLF. Inputs that do not format (parse errors, or a panic of the first format) are not applicable." % total_files,
        "evaluations": len(inputs), "distinct_nontrivial": len({hashlib.sha256(i[3].encode()).hexdigest() + i[2] for i, l in zip(inputs, lines) if l.split(" ")[0] in ("same", "diff", "err2", "panic2") and len(i[3]) > 40}),
        "rule": "one evaluation = Formatter::format applied twice to one (source text, newline style); non-trivial = the source formats (applicable) and is longer than 40 bytes; distinct by sha256(source)+style",
        "samples": [{"origin": i[0], "variant": i[1], "style": i[2], "result": l.split(" ")[0]} for i, l in list(zip(inputs, lines))[10:14]],
        "files_in_repo_distinct": total_files, "files_used": len(srcs) if not ctx.replay else 0, "applicable": applicable,
        "results": stats, "first_format_panics": stats.get("panic1", 0), "non_fixpoints": len(bad),
        "known_class_hits": sorted(ctx.known_hits), "stage_correspondence": corr, "outputs_without_final_newline": no_final_nl,
        "variants": [v[0] + ":" + v[2] for v in VARIANTS], "thresholds_read_from_source": (thresholds() if not ctx.replay else {}),
        "synthetic_threshold_edge_inputs": sum(1 for i in inputs if i[1] == "threshold-edge"),
    })
    ctx.assumptions += ["idempotence of the printers is observed per input, not proved",
                        "stage model = code established by exact comparison on generated texts only (hook swayfmt::verif_newline_stage)",
                        "cfg!(windows) = false (Native newline style = Unix)"]
