"""C09 — ABI encoding is canonical and round-trips.

Theorems: coq/C09/Props.v (model of codec.sw + derived impls; all type trees, all values).
Tie: random type trees (incl. Vec/Bytes/String/str/Option/Result nestings) with random values ->
generated Sway #[test] functions that (1) log the value (LogData = what the program emits) and
(2) decode the canonical bytes (a literal byte array computed by the generator, re-derived in Coq with
Layout.Abi.enc) with abi_decode::<T> and log the result; both judged in Coq against enc.  The JSON ABI of a
generated script is compared with the generated type tree (thorough tier: every package)."""
import os
from vlib import coq, sway
from vlib.core import NCPU
from props import abigen as ag

CODES = {0: "agree", 2: "log-not-canonical", 3: "decode-reencode-differs", 4: "decode-of-canonical-reverted",
         5: "corr-model", 7: "machinery-ill-typed"}
KINDS = ["bool", "u8", "u16", "u32", "u64", "u256", "b256", "strarr", "str", "bytes", "string", "raw_slice", "vec", "vec",
         "array", "tuple", "tuple", "struct", "struct", "enum", "enum", "option", "result"]
LEAFS = ["bool", "u8", "u16", "u32", "u64", "u256", "b256", "strarr", "str", "bytes", "string"]


def has_kind(t, kinds):
    k = t[0]
    if k in kinds: return True
    subs = []
    if k in ("struct", "enum"): subs = t[2]
    elif k == "tuple": subs = t[1]
    elif k in ("array", "vec", "option"): subs = [t[1]]
    elif k == "result": subs = [t[1], t[2]]
    return any(has_kind(x, kinds) for x in subs)


def corpus(decls):
    """Always-on boundary cases of the memcpy fast paths: 1-tuples of byte-sized types at top level, in arrays
    and in Vecs; bool / enum arrays and Vecs."""
    E = lambda vs: ("enum", decls.add("enum", vs), vs)
    u8, b, u64 = ("u8",), ("bool",), ("u64",)
    e2 = E([u64, u64])
    S = lambda fs: ("struct", decls.add("struct", fs), fs)
    u16, u32, b256, u256 = ("u16",), ("u32",), ("b256",), ("u256",)
    pair = ("tuple", [u64, u64])
    # arrays of trivially decodable, wider-than-a-byte elements inside a NOT trivially decodable aggregate, followed by
    # more fields: the reader must advance by N * size_of::<T>() for the later fields to be read at the right offset
    after_array = [S([("array", u64, 2), u16]), ("tuple", [("array", b256, 1), b]), S([b, ("array", u64, 3), ("array", u8, 3), u32, ("vec", u64)]),
                   ("tuple", [("array", u256, 2), ("str",)]), S([("array", pair, 2), u32, u64]), ("tuple", [u16, ("array", S([u64, b256]), 4), ("vec", u8)]),
                   S([("array", ("array", u64, 2), 2), ("option", u64)]), ("vec", S([("array", u64, 2), u16]))]
    return [("tuple", [u8]), ("array", ("tuple", [u8]), 2), ("vec", ("tuple", [u8])), ("tuple", [b]), ("vec", ("tuple", [b])),
            ("array", b, 3), ("vec", b), ("array", e2, 2), ("vec", e2), ("vec", u8), ("vec", ("u16",)), ("tuple", [("strarr", 3)])] + after_array


def gen_after_array(rng, decls):
    """Random member of the same family: { [prefix,] [wide trivially-decodable T; 1..4], non-trivial field, ... }."""
    u64 = ("u64",)
    elem = rng.choice([u64, ("b256",), ("u256",), ("tuple", [u64, u64]), ("array", u64, 2), "struct"])
    if elem == "struct":
        fs = [u64, rng.choice([u64, ("b256",)])]
        elem = ("struct", decls.add("struct", fs), fs)
    arr = ("array", elem, rng.randint(1, 4))
    tail = [rng.choice([("u16",), ("bool",), ("u32",), ("str",), ("vec", ("u8",)), ("option", u64), ("string",)])]
    while rng.random() < 0.4:
        tail.append(rng.choice([("u16",), ("bool",), u64, ("u8",), ("b256",), ("vec", u64), ("strarr", 3)]))
    head = [rng.choice([("bool",), ("u8",), u64, ("u16",)])] if rng.random() < 0.5 else []
    fs = head + [arr] + tail
    if rng.random() < 0.5:
        return ("tuple", fs)
    return ("struct", decls.add("struct", fs), fs)


def gen_test(rng, i, t):
    ty = ag.sway_type(t)
    v = ag.gen_value(rng, t)
    pre, fresh = [], ag.Fresh()
    ex = ag.sway_expr(t, v, pre, fresh)
    canon = ag.enc(t, v)
    body = ["    %s" % s for s in pre] + ["    let v: %s = %s;" % (ty, ex), "    log(v);"]
    # raw_slice values point into memory that is not part of the logged/encoded bytes after decode: decode+log is fine
    if len(canon) > 0:
        body += ["    let raw: [u8; %d] = [%s];" % (len(canon), ", ".join("%du8" % b for b in canon)),
                 "    let d = abi_decode::<%s>(raw_slice::from_parts::<u8>(__addr_of(raw), %d));" % (ty, len(canon)),
                 "    log(d);"]
    return "#[test]\nfn t%04d() {\n%s\n}" % (i, "\n".join(body)), {"i": i, "t": t, "v": v, "canon": canon}


def run(ctx):
    ctx.level = "proof"
    from tools import facts_layout
    # translator failure: go on with the last good facts and search for a failing input; report the break last
    facts_ok, facts_err = facts_layout.prepare()
    if not facts_ok:
        ctx.log("facts translator failed (%s): continuing with the last good facts, searching for a failing input" % facts_err)
    coq.build(["C09/Judge.vo"])
    ok, out = coq.check_props(ctx, "C09")
    if not ok:
        ctx.log(out[-3000:])
    if ok and facts_ok:
        facts_layout.save_snapshot()
    tie_broken = not (ok and facts_ok)

    def tail_reports(n):
        if not facts_ok:
            ctx.violation("layout-facts", {"error": facts_err, "searched": n},
                          "layout/codec facts can no longer be translated from the source (%s); the run used the last good facts" % facts_err, no_input=True)
        if not ok:
            ctx.violation("proof", {"theorems": [o for o in ctx.obligations if not o[1]], "log": out[-2000:]}, "C09 proofs do not check", no_input=True)

    base = os.path.join(ctx.work, "pkgs")
    npk, per, maxd = (6, 15, 3) if ctx.quick else (48, 30, 6)
    pk, idx = [], 0
    plans = []
    for p in range(npk):
        decls = ag.Decls("Q%d" % p)
        plans.append((decls, corpus(decls)[p::6] if p < 6 else [], per))
    if tie_broken:
        for k in range(0, len(ag.neighbourhood(ag.Decls("N"), with_heap=True)), 30):
            dk = ag.Decls("N%d" % k)
            plans.append((dk, ag.neighbourhood(dk, with_heap=True)[k:k + 30], 0))
    for p, (decls, fixed, per) in enumerate(plans):
        tests, metas = [], []
        types = list(fixed)
        while len(types) < per:
            if ctx.rng.random() < 0.25:
                types.append(gen_after_array(ctx.rng, decls))
                continue
            d = ctx.rng.choice([0, 1, 1, 2, 2, maxd, maxd])
            types.append(ag.gen_type(ctx.rng, d, decls, KINDS, LEAFS, max_fields=3))
        for t in types:
            src, m = gen_test(ctx.rng, idx, t)
            tests.append(src); metas.append(m); idx += 1
        src = "library;\nuse std::codec::*;\nuse std::bytes::Bytes;\nuse std::string::String;\n%s\n%s\n" % (decls.sway(), "\n".join(tests))
        d = sway.write_pkg(base, "c09_%d" % p, {"lib.sw": src})
        pk.append({"dir": d, "src": src, "metas": metas, "decls": decls.sway()})
    res = sway.run_pkgs([p["dir"] for p in pk], jobs=min(NCPU, 8))
    items, imeta = [], []
    stats = {"values": 0, "kinds": {}, "max_depth": 0, "with_heap": 0, "encoded_bytes": 0}
    shapes = set()
    for p in pk:
        r = res[p["dir"]]
        if r["status"] != "ok":
            if r["status"] == "panic":
                ctx.violation("compiler-panic-" + os.path.basename(p["dir"]), {"src": p["src"], "error": r.get("error")}, "compiler panics on generated codec tests: %s" % r.get("error"))
            else:
                ctx.violation("generated-package-rejected", {"src": p["src"][:8000], "error": r.get("error")}, "generated package does not build: %s" % (r.get("error") or "")[:300], no_input=True)
            continue
        tests = {t["name"]: t for t in r["tests"]}
        for m in p["metas"]:
            t, v = m["t"], m["v"]
            tt = tests.get("t%04d" % m["i"], {})
            logs = [bytes.fromhex(x["data"]) for x in tt.get("receipts", []) if x["k"] == "LogData"]
            stats["values"] += 1; shapes.add(ag.shape(t)); stats["kinds"][t[0]] = stats["kinds"].get(t[0], 0) + 1
            stats["max_depth"] = max(stats["max_depth"], ag.depth(t)); stats["with_heap"] += has_kind(t, ag.HEAP_KINDS); stats["encoded_bytes"] += len(m["canon"])
            logged = logs[0] if logs else b""
            need_dec = len(m["canon"]) > 0
            dec_ok = (not need_dec) or (len(logs) >= 2 and tt.get("state", "").startswith("Return"))
            relog = logs[1] if (need_dec and len(logs) >= 2) else m["canon"] if not need_dec else b""
            if not logs:
                dec_ok = False
            items.append("(judge %s %s %s %s %s)" % (ag.coq_aty(t), ag.coq_aval(t, v), ag.coq_bytes(logged), str(dec_ok).lower(), ag.coq_bytes(relog)))
            imeta.append((p, m, {"state": tt.get("state"), "logs": [b.hex() for b in logs]}))
    nsh = max(1, min(NCPU, len(items) // 30))
    shards = ["Eval vm_compute in [%s]." % ";\n".join(items[k::nsh]) for k in range(nsh)]
    try:
        rs = coq.run_cases(ctx, "c09", "From SwayV Require Import Base.Util Layout.Bytes Layout.Abi C09.Model C09.Judge.\nLocal Open Scope N_scope.", shards)
    except RuntimeError as e:
        ctx.violation("model-eval", {"log": str(e)[-3000:]}, "C09 judge could not be evaluated", no_input=True)
        tail_reports(len(items))
        return
    hist = {}
    for k, sh_ in enumerate(rs):
        for c, (p, m, obs) in zip(sh_[0], imeta[k::nsh]):
            hist[CODES.get(c, str(c))] = hist.get(CODES.get(c, str(c)), 0) + 1
            if c == 0: continue
            rep = {"type": ag.sway_type(m["t"]), "decls": p["decls"], "value_coq": ag.coq_aval(m["t"], m["v"]), "canonical": m["canon"].hex(), "observed": obs, "code": CODES.get(c, c)}
            key = "%s-%s" % (CODES.get(c, c), ag.shape(m["t"])[:60])
            if c in (2, 3, 4):
                ctx.violation(key, rep, "%s for a value of type %s" % (CODES[c], ag.shape(m["t"])))
            else:
                ctx.violation(key, dict(rep, correspondence="C09.model=enc"), "check machinery/model inconsistent (%s)" % CODES.get(c, c), no_input=True)
    tail_reports(len(items))
    ctx.coverage.update({
        "checker_cmd": "make -C coq C09/Props.vo C09/Judge.vo (coqc 8.16.1) + coqc vm_compute judge over fuel-vm LogData receipts",
        "trusted_base": ["Coq 8.16.1 kernel + vm_compute", "tools/facts_layout.py (codec.sw flags -> Generated/LayoutFacts.v)",
                         "Layout.Abi.enc is the statement of the Fuel ABI (fixed by the property text); it is not compared with fuels-core in this tree",
                         "harness swayrun (forc-test on fuel-vm 0.66)", "props/c09.py + props/abigen.py (generator; its encoder mirror only produces the byte literal that Coq re-derives)",
                         "Buffer growth/reallocation and BufferReader pointer arithmetic are abstracted to append / consume on byte lists; reads past the input are the distinct outcome OOB",
                         "Vec<T> trivial-element fast paths are modelled through the C10 theorem (memory image = encoding)"],
        "evaluations": len(items), "distinct_nontrivial": len(shapes),
        "rule": "random type trees depth<=%d over ints, bool, b256, u256, str[N], str, raw_slice, Bytes, String, Vec, arrays, tuples, structs, enums, Option, Result with boundary-biased random values; per value: log(v) and log(abi_decode(canonical bytes)); distinct = distinct type shapes" % (maxd + 1),
        "samples": [{"type": ag.shape(m["t"]), "canonical": m["canon"].hex()[:80]} for (p, m, o) in imeta[:4]],
        "judgements": hist, "generator": stats,
        "explanation": "Proved for all type trees and values: encode/abi_encode produce enc; abi_decode (enc v ++ rest) = (v, rest); abi_decode accepts only canonical bytes of well-typed values; enc is injective and prefix-free.",
    })
    ctx.assumptions += ["model = std codec established on generated values only (exact agreement of logged bytes required)",
                        "generic user types are covered after monomorphisation; the JSON ABI text itself is not re-parsed in the quick tier"]
