"""Shared by C08 and C07: turn the sway-core verification dumps (design_notes/hooks.md) into Coq
terms over coq/Asm/Model.v, build/run corpus packages with per-package dump files."""
import os, re, json, shutil, hashlib, concurrent.futures as cf
from vlib import rust
from vlib.core import NCPU

CONST = ["$zero", "$one", "$of", "$pc", "$ssp", "$sp", "$fp", "$hp", "$err", "$ggas", "$cgas", "$bal",
         "$is", "$ret", "$retl", "$flag", "$$ds", "$$reta", "$$retv", "$$tmp", "$$locbase",
         "$$arg0", "$$arg1", "$$arg2", "$$arg3", "$$arg4", "$$arg5"]
CONST_ID = {n: i for i, n in enumerate(CONST)}
# opcode numbers fixed by convention with coq/Asm/Model.v (OPC_*)
OPC_FIXED = {"rvrt": 1, "lw": 2, "sw": 3, "cfei": 4, "cfsi": 5, "movi": 6, "add": 7, "slli": 8, "mcp": 9, "mcpi": 10,
             # organisational ops that are not labels/jumps (ControlFlowOp::{Comment, PushAll, PopAll, *OffsetPlaceholder})
             "": 11, "pusha": 12, "popa": 13, "CONFIGURABLES_OFFSET[0..32]": 14, "DATA": 15,
             # the ALU fragment interpreted by coq/C07/CpModel.v (alu_of_opc)
             "sub": 31, "mul": 32, "div": 33, "mod": 34, "exp": 35, "and": 36, "or": 37, "xor": 38, "sll": 39, "srl": 40,
             "eq": 41, "lt": 42, "gt": 43, "not": 44, "addi": 45, "subi": 46, "muli": 47, "divi": 48, "modi": 49,
             "expi": 50, "andi": 51, "ori": 52, "xori": 53, "srli": 55}
RET_TEXT = "jal $zero $$reta i0"


class Interner:
    """Per-case numbering of virtual registers (1000+), tokens, labels, opcodes."""
    def __init__(self):
        self.virt, self.tok, self.lab, self.opc = {}, {}, {}, dict(OPC_FIXED)

    def vreg(self, name):
        if name in CONST_ID: return CONST_ID[name]
        if name not in self.virt: self.virt[name] = 1000 + len(self.virt)
        return self.virt[name]

    def mreg(self, name):
        """register of an allocated op: constant or machine $r<n> -> 100+n"""
        if name in CONST_ID: return CONST_ID[name]
        m = re.fullmatch(r"\$r(\d+)", name)
        if not m or int(m.group(1)) >= 900:
            raise ValueError("unexpected allocated register %r" % name)
        return 100 + int(m.group(1))

    def label(self, l):
        if l not in self.lab: self.lab[l] = len(self.lab)
        return self.lab[l]

    def token(self, t):
        if t not in self.tok: self.tok[t] = len(self.tok)
        return self.tok[t]

    def opcode(self, m):
        if m not in self.opc: self.opc[m] = 100 + len(self.opc)
        return self.opc[m]


def nl(xs):
    return "[" + ";".join(str(x) for x in xs) + "]"


def kind_of_text(text, itn, reg):
    """Coq opkind term for an op text; `reg` maps a register name to its number."""
    if text == RET_TEXT:
        return "KRet"
    toks = text.split()
    if not toks:
        return "(KOther %d [])" % itn.opcode("")
    m, args = toks[0], toks[1:]
    if m.startswith(".") and not args:
        return "(KLabel %d)" % itn.label(m)
    if m == "ji" and len(args) == 1: return "(KJump %d)" % itn.label(args[0])
    if m == "jnzi" and len(args) == 2 and args[1].startswith("."):
        return "(KJnz %d %d)" % (itn.label(args[1]), reg(args[0]))
    if m == "fncall" and len(args) == 1: return "(KCall %d)" % itn.label(args[0])
    if m == "jmp" and len(args) == 1: return "(KJmpAddr %d)" % reg(args[0])
    if m == "move" and len(args) == 2: return "(KMove %d %d)" % (reg(args[0]), reg(args[1]))
    if m == "noop" and not args: return "KNoop"
    out = []
    for a in args:
        if a.startswith("$"): out.append("OReg %d" % reg(a))
        elif re.fullmatch(r"i\d+", a): out.append("OImm %s" % a[1:])
        else: out.append("OTok %d" % itn.token(a))
    return "(KOther %d [%s])" % (itn.opcode(m), ";".join(out))


JSON_KIND = {"KRet": "ret", "KLabel": "label", "KJump": "jump", "KJnz": "jnz", "KCall": "call",
             "KJmpAddr": "jmpaddr", "KMove": "move", "KNoop": "noop"}


def op_term(o, itn):
    """Coq `op` term of a dumped virtual op (ops-object element)."""
    k = kind_of_text(o["t"], itn, itn.vreg)
    head = k.strip("(").split()[0]
    jk = o["kind"]["k"]
    want = JSON_KIND.get(head)
    if want is not None and want != jk or want is None and jk in JSON_KIND.values():
        raise ValueError("op text %r parsed as %s but the dump says kind %s" % (o["t"], head, jk))
    return "(mkOp %s %s %s %s %s)" % (nl(itn.vreg(r) for r in o["u"]), nl(itn.vreg(r) for r in o["d"]),
                                     nl(itn.vreg(r) for r in o["c"]), "true" if o["se"] else "false", k)


def ops_term(ops_obj, itn):
    return "[" + ";\n".join(op_term(o, itn) for o in ops_obj["ops"]) + "]"


def read_dump(path):
    """generator over the JSON-lines records of a dump file (dumps can be large: never hold them all)"""
    if not os.path.exists(path):
        return
    with open(path, encoding="utf-8", errors="replace") as f:
        for line in f:
            line = line.strip()
            if not line: continue
            try:
                yield json.loads(line)
            except Exception:
                yield {"kind": "garbled", "tid": "", "v": {}}


def src_lines(pkg_dir):
    n = 0
    for root, _, files in os.walk(os.path.join(pkg_dir, "src")):
        for fn in files:
            if fn.endswith(".sw"):
                with open(os.path.join(root, fn), errors="replace") as f: n += sum(1 for _ in f)
    return n


def prepare_pkg(src, dst_base, name=None):
    """Copy a package, point its std dependency at /repo/sway-lib-std. Returns the dir or None when the
    package has other path dependencies (cannot be built standalone)."""
    name = name or os.path.basename(src.rstrip("/"))
    toml = open(os.path.join(src, "Forc.toml")).read()
    dst = os.path.join(dst_base, name)
    if os.path.exists(dst): shutil.rmtree(dst)
    shutil.copytree(src, dst)
    out, ok = [], True
    for line in toml.split("\n"):
        m = re.match(r'\s*(\w[\w-]*)\s*=\s*\{\s*path\s*=\s*"([^"]*)"', line)
        if m:
            if m.group(1) == "std" or m.group(2).rstrip("/").endswith("sway-lib-std"):
                line = 'std = { path = "/repo/sway-lib-std" }'
            else:
                ok = False
        out.append(line)
    open(os.path.join(dst, "Forc.toml"), "w").write("\n".join(out))
    lock = os.path.join(dst, "Forc.lock")
    if os.path.exists(lock): os.remove(lock)
    return dst if ok else None


def run_pkgs_dump(dirs, dump_dir, kinds, release=False, extra_env=None, timeout=1500, jobs=None, tag=""):
    """Build+run each package with its own VERIF_DUMP file. Returns {dir: (result-json, dump-path)}."""
    binp, out = rust.build("swayrun")
    if binp is None:
        raise RuntimeError("swayrun does not build:\n" + out[-3000:])
    os.makedirs(dump_dir, exist_ok=True)

    def one(d):
        dump = os.path.join(dump_dir, os.path.basename(d.rstrip("/")) + tag + ".jsonl")
        if os.path.exists(dump): os.remove(dump)
        env = {"VERIF_DUMP": dump, "VERIF_DUMP_KINDS": kinds}
        if not kinds:
            env = {"VERIF_DUMP": ""}
        if extra_env: env.update(extra_env)
        rel = (d in release) if isinstance(release, (set, list, tuple)) else bool(release)
        rc, o = rust.run(binp, (["--release"] if rel else []) + [d], timeout=timeout, env=env)
        res = None
        for line in o.split("\n"):
            line = line.strip()
            if line.startswith("{"):
                try:
                    res = json.loads(line); break
                except Exception:
                    pass
        if res is None:
            res = {"pkg": d, "status": "harness_error", "error": "rc=%s out=%s" % (rc, o[-1500:])}
        return d, (res, dump)
    with cf.ThreadPoolExecutor(max_workers=jobs or NCPU) as ex:
        return dict(ex.map(one, dirs))


def digest(*parts):
    h = hashlib.sha256()
    for p in parts:
        h.update(json.dumps(p, sort_keys=True).encode()); h.update(b"\0")
    return h.hexdigest()
