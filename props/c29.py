"""C29 — unit tests run isolated and report exactly their outcome.
Theorems: coq/C29/Props.v (verdict logic for every pass condition and VM outcome; isolation of the suite
model). Correspondence/property on the implementation: generated contract packages whose #[test]
functions log, write and read contract storage, revert, fail asserts or make the VM panic, run through
the real forc_test::build + run; verdicts, final states and logs judged in Coq (C29/Judge.v)."""
import os, re, json
from vlib import coq, rust, sway
from vlib.core import REPO

NFIELDS = 4

def facts():
    src = open(os.path.join(REPO, "sway-lib-std/src/error_signals.sw")).read()
    m = re.search(r"pub const FAILED_ASSERT_SIGNAL\s*=\s*(0x[0-9a-fA-F_]+)\s*;", src)
    if not m:
        raise RuntimeError("C29.tgen: FAILED_ASSERT_SIGNAL not found in error_signals.sw")
    return int(m.group(1).replace("_", ""), 16)

SIGNALS = [0xffffffffffff0000, 0xffffffffffff0001, 0xffffffffffff0003, 0xffffffffffff0004, 0xffffffffffff0005, 0xffffffffffff0006]

def gen_code(rng):
    """boundary-biased revert codes: small, around 2^32, around 2^63, std error signals, max"""
    return rng.choice([0, 1, 42, 2**32, 2**32 + 1, 2**63 - 1, 2**63, 2**63 + 5, 2**64 - 1, 2**64 - 2,
                       rng.choice(SIGNALS), rng.randrange(2**64), rng.randrange(2**63, 2**64), (1 << rng.randrange(64))])

def near_code(rng, code):
    """a declared code that is close to, but different from, the actual one"""
    c = rng.choice([code ^ 1, code ^ (1 << rng.randrange(64)), (code + 1) % 2**64, (code - 1) % 2**64,
                    code & 0xFFFFFFFF, code & ~0xFFFF & (2**64 - 1), code >> 1, rng.choice(SIGNALS), 0, 42])
    return c if c != code else (code + 2) % 2**64

def gen_test(rng, idx, assert_signal=0xffffffffffff0004):
    kind = rng.choice(["pass", "pass", "revert", "revert", "revert", "assert", "panic", "pass_long"])
    body = [("log", 1000 + idx)]
    for _ in range(rng.randint(0, 5 if kind != "pass_long" else 9)):
        a = rng.choice(["log", "write", "read", "read"])
        if a == "log": body.append(("log", rng.randrange(1, 2**40)))
        elif a == "write": body.append(("write", rng.randrange(NFIELDS), rng.choice([0, 1, rng.randrange(2**64)])))
        else: body.append(("read", rng.randrange(NFIELDS)))
    code = None
    if kind == "revert":
        code = gen_code(rng)
        body.append(("revert", code))
    elif kind == "assert":
        code = assert_signal
        body.append(("assertfail",))
    elif kind == "panic":
        code = 0
        body.append(("panic",))
    if rng.random() < 0.3 and kind in ("revert", "assert", "panic"):
        body.append(("log", 7))      # dead code after the terminator
    c = rng.random()
    if c < 0.3: cond = ("not",)
    elif c < 0.5: cond = ("any",)
    else:
        base = code if code is not None else rng.choice([0, 42, 2**63])
        cond = ("code", base if rng.random() < 0.45 else near_code(rng, base))
    return cond, body

def sway_suite(init, tests):
    fields = "\n".join("    f%d: u64 = %d," % (i, v) for i, v in enumerate(init))
    wr = " else ".join("if k == %d { storage.f%d.write(v); }" % (i, i) for i in range(NFIELDS))
    rd = " else ".join("if k == %d { storage.f%d.read() }" % (i, i) for i in range(NFIELDS)) + " else { 0 }"
    out = ["contract;\n", "storage {\n%s\n}\n" % fields,
           "abi S {\n    #[storage(write)]\n    fn w(k: u64, v: u64);\n    #[storage(read)]\n    fn r(k: u64) -> u64;\n}\n",
           "impl S for Contract {\n    #[storage(write)]\n    fn w(k: u64, v: u64) { %s }\n    #[storage(read)]\n    fn r(k: u64) -> u64 { %s }\n}\n" % (wr, rd),
           "#[inline(never)]\nfn idf(x: u64) -> u64 { x }\n"]
    for i, (cond, body) in enumerate(tests):
        attr = {"not": "#[test]", "any": "#[test(should_revert)]"}.get(cond[0]) or '#[test(should_revert = "%d")]' % cond[1]
        lines = ["    let c = abi(S, CONTRACT_ID);"]
        for a in body:
            if a[0] == "log": lines.append("    log(idf(%d));" % a[1])
            elif a[0] == "write": lines.append("    c.w(%d, %d);" % (a[1], a[2]))
            elif a[0] == "read": lines.append("    log(c.r(%d));" % a[1])
            elif a[0] == "revert": lines.append("    if idf(1) == 1 { revert(%d); }" % a[1])
            elif a[0] == "assertfail": lines.append("    assert(idf(1) == 2);")
            elif a[0] == "panic": lines.append("    log(idf(0xFFFFFFFFFFFFFFFF) + idf(1));")
        out.append("%s\nfn t%02d() {\n%s\n}\n" % (attr, i, "\n".join(lines)))
    return "\n".join(out)

def coq_cond(c):
    return {"not": "ShouldNotRevert", "any": "(ShouldRevert None)"}.get(c[0]) or "(ShouldRevert (Some %d%%N))" % c[1]

def coq_body(body):
    m = {"log": lambda a: "ALog %d" % a[1], "write": lambda a: "AWrite %d %d" % (a[1], a[2]), "read": lambda a: "ARead %d" % a[1],
         "revert": lambda a: "ARevert %d" % a[1], "assertfail": lambda a: "AAssertFail", "panic": lambda a: "AVmPanic"}
    return "[" + "; ".join(m[a[0]](a) for a in body) + "]%N"

def parse_state(s):
    if s.startswith("Revert("): return "(Revert %s%%N)" % s[7:-1]
    if s.startswith("ReturnData"): return "ReturnData"
    if s.startswith("Return("): return "Return"
    return None

CODES = {0: "ok", 1: "state-differs-from-model", 2: "verdict-mismatch", 3: "logs-differ", 9: "length-mismatch"}

def run(ctx):
    ctx.level = "proof"
    ok, out = coq.check_props(ctx, "C29", extra_targets=["C29/Judge.vo"])
    if not ok:
        ctx.log(out[-3000:])
        ctx.violation("proof", {"theorems": [o for o in ctx.obligations if not o[1]], "log": out[-2000:]}, "C29 proofs do not check", no_input=True)
    try:
        sig = facts()
    except Exception as e:
        # broken tie: report it, but keep searching for a failing input with the last known value
        ctx.violation("tgen", {"error": str(e)}, "C29.tgen: cannot regenerate facts from source", no_input=True)
        sig = 0xffffffffffff0004
    nsuites = 8 if ctx.quick else 160
    base = os.path.join(ctx.work, "pkgs")
    suites, dirs = [], []
    for k in range(nsuites):
        init = [ctx.rng.randrange(1, 2**63) for _ in range(NFIELDS)]
        tests = [gen_test(ctx.rng, i, sig) for i in range(ctx.rng.randint(3, 12))]
        if k == 0:   # corpus: the shapes named in the property text
            tests = [(("not",), [("log", 1), ("write", 0, 9), ("read", 0)]), (("not",), [("read", 0)]),
                     (("any",), [("panic",)]), (("code", 42), [("revert", 42)]), (("code", 42), [("revert", 43)]),
                     (("code", 0), [("panic",)]), (("not",), [("assertfail",)]), (("any",), [("log", 5)]),
                     # declared and actual codes that differ only in low / only in high bits, error signals
                     (("code", 0xffffffffffff0000), [("assertfail",)]), (("code", sig), [("assertfail",)]),
                     (("code", 2**63 + 2), [("revert", 2**63 + 1)]), (("code", 2**63 + 1), [("revert", 2**63 + 1)]),
                     (("code", 5), [("revert", 2**32 + 5)]), (("code", 2**64 - 1), [("revert", 2**64 - 2)]),
                     (("code", 1), [("panic",)])]
        name = "c29s%03d" % k
        d = sway.write_pkg(base, name, {"main.sw": sway_suite(init, tests)}, entry="main.sw")
        suites.append((name, init, tests)); dirs.append(d)
    res = {}
    for i in range(0, len(dirs), 64):
        res.update(sway.run_pkgs(dirs[i:i + 64]))
    shards, meta = [], []
    total_tests = 0
    stats = {"build_error": 0, "panic": 0}
    for (name, init, tests), d in zip(suites, dirs):
        r = res[d]
        if r["status"] != "ok":
            stats[r["status"]] = stats.get(r["status"], 0) + 1
            what = "forc test %s on generated suite: %s" % (r["status"], r.get("error", "")[:300])
            ctx.violation("suite-" + r["status"], {"package": d, "source": open(os.path.join(d, "src/main.sw")).read(), "result": r},
                          what, no_input=(r["status"] != "panic"))
            continue
        byname = {t["name"]: t for t in r["tests"]}
        obs, okp = [], True
        for i in range(len(tests)):
            t = byname.get("t%02d" % i)
            st = parse_state(t["state"]) if t else None
            if t is None or st is None:
                okp = False; break
            logs = []
            for rc in t["receipts"]:
                if rc["k"] == "LogData": logs.append(int(rc["data"] or "0", 16))
                elif rc["k"] == "Log": logs.append(int(rc["ra"]))
            obs.append("{| ob_passed := %s; ob_state := %s; ob_logs := [%s]%%N |}" % ("true" if t["passed"] else "false", st, ";".join(map(str, logs))))
        if not okp:
            ctx.violation("suite-missing-test", {"package": d, "result": r}, "test missing or unparsable state in forc-test output", no_input=True)
            continue
        total_tests += len(tests)
        ts = "[" + ";\n ".join("{| t_cond := %s; t_body := %s |}" % (coq_cond(c), coq_body(b)) for c, b in tests) + "]"
        store = "[" + ";".join("(%d,%d)" % (i, v) for i, v in enumerate(init)) + "]%N"
        shards.append("Eval vm_compute in (judge_suite %d%%N %s\n %s\n [%s])." % (sig, store, ts, ";\n ".join(obs)))
        meta.append((name, d, tests, r))
    hist = {}
    if shards:
        groups = [shards[i::16] for i in range(16) if shards[i::16]]
        gm = [meta[i::16] for i in range(16) if meta[i::16]]
        out = coq.run_cases(ctx, "c29", "From SwayV Require Import Base.Util C29.Model C29.Spec C29.Judge.", ["\n".join(g) for g in groups])
        for g, ms in zip(out, gm):
            for codes, (name, d, tests, r) in zip(g, ms):
                for i, c in enumerate(codes):
                    hist[CODES.get(c, str(c))] = hist.get(CODES.get(c, str(c)), 0) + 1
                    if c == 0: continue
                    rep = {"package": d, "test": "t%02d" % i, "cond": tests[i][0], "body": tests[i][1] if i < len(tests) else None,
                           "observed": next((t for t in r["tests"] if t["name"] == "t%02d" % i), None)}
                    key = "%s_t%02d_%s" % (name, i, CODES.get(c, c))
                    if c in (2, 3):
                        ctx.violation(key, rep, "forc test: %s for %s" % (CODES[c], rep["test"]))
                    else:
                        ctx.violation(key, dict(rep, correspondence="C29.corr/run_test"), "model and forc-test differ (%s); oracle accepts the verdict" % CODES.get(c, c), no_input=True)
    bodies = {json.dumps([c, b]) for _, _, ts in suites for c, b in ts if len(b) >= 2}
    ctx.coverage.update({
        "checker_cmd": "make -C coq C29/Props.vo (coqc 8.16.1) + vm_compute judge over forc-test output",
        "trusted_base": ["Coq 8.16.1 kernel + vm_compute", "harness/src/bin/swayrun.rs", "props/c29.py (Sway printer of test bodies, receipt parsing)",
                         "fuel-vm interpreter and forc-test's deployment are the run time; the per-test mini-semantics (C29/Model.v exec) is tied only by this comparison"],
        "evaluations": total_tests, "distinct_nontrivial": len(bodies),
        "rule": "suites of 3-12 generated #[test] functions in a contract with 4 initialised storage fields; each body = logs / storage writes / storage reads through contract calls, optionally ended by revert(c), a failing assert or a VM overflow panic; pass condition none / should_revert / should_revert=code (right, off-by-one, 0, 42); non-trivial = body with >= 2 actions; distinct by (condition, body)",
        "samples": [{"cond": c, "body": b} for c, b in suites[min(1, len(suites) - 1)][2][:4]],
        "suites": len(suites), "judgements": hist, "suite_failures": stats,
        "explanation": "verdict theorem covers every pass condition and VM outcome; isolation theorem is about the suite model (each test starts from the initial storage) and is tied to forc-test by the storage-read logs of the generated suites",
    })
    ctx.assumptions += ["a VM panic (interpreter error) is read as 'reverted with code 0', as forc-test implements it (DESIGN.md C29)",
                        "isolation in the model is by construction; its agreement with forc-test rests on the correspondence run"]
