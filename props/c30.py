"""C30 — dependency fetching is crash-safe.
Theorems: coq/C30/Props.v (step model of git::fetch, repaired protocol safe for all fault sequences;
original protocol refuted).  Validation (fault enumeration): a project whose only dependency is a LOCAL
git repository is planned with the real `BuildPlan::from_pkg_opts` (harness bin c30, one process per
build) with a crash (process abort) or an I/O failure injected at every cfg(fuellabs_sway_verif) point
of `git::fetch` in turn, then again without fault; decisions and directory trees are compared with the
model inside Coq, and the spec oracle (never use an incomplete checkout) is applied to the observations."""
import os, shutil, subprocess, hashlib, concurrent.futures as cf
from vlib import coq, rust
from vlib.core import NCPU

REPOS = {
    "five": {"Forc.toml": '[project]\nauthors = ["v"]\nentry = "lib.sw"\nlicense = "Apache-2.0"\nname = "mylib"\nimplicit-std = false\n',
             "README.md": "mylib\n",
             "src/lib.sw": "library;\npub mod m1;\npub mod z;\npub fn f() -> u64 { 1 }\n",
             "src/m1.sw": "library;\npub fn a() -> u64 { 2 }\n",
             "src/z.sw": "library;\npub fn b() -> u64 { 3 }\n"},
    "two": {"Forc.toml": '[project]\nauthors = ["v"]\nentry = "lib.sw"\nlicense = "Apache-2.0"\nname = "mylib"\nimplicit-std = false\n',
            "src/lib.sw": "library;\npub fn f() -> u64 { 1 }\n"},
    "nested": dict([("Forc.toml", '[project]\nauthors = ["v"]\nentry = "lib.sw"\nlicense = "Apache-2.0"\nname = "mylib"\nimplicit-std = false\n'),
                    ("src/lib.sw", "library;\npub fn f() -> u64 { 1 }\n")] +
                   [("docs/d%d/note%d.md" % (i % 3, i), "n%d\n" % i) for i in range(9)]),
}


def sh(cmd, cwd=None, env=None, timeout=300):
    e = dict(os.environ); e.update(env or {})
    try:
        r = subprocess.run(cmd, shell=True, cwd=cwd, env=e, capture_output=True, text=True, timeout=timeout)
        return r.returncode, r.stdout, r.stderr
    except subprocess.TimeoutExpired:
        return 124, "", "timeout"


def make_repo(base, name, files):
    src = os.path.join(base, "src_" + name)
    shutil.rmtree(src, ignore_errors=True)
    for rel, text in files.items():
        p = os.path.join(src, rel); os.makedirs(os.path.dirname(p), exist_ok=True)
        open(p, "w").write(text)
    g = {"GIT_AUTHOR_NAME": "v", "GIT_AUTHOR_EMAIL": "v@v", "GIT_COMMITTER_NAME": "v", "GIT_COMMITTER_EMAIL": "v@v",
         "GIT_AUTHOR_DATE": "2024-01-01T00:00:00Z", "GIT_COMMITTER_DATE": "2024-01-01T00:00:00Z",
         "HOME": base, "GIT_CONFIG_NOSYSTEM": "1"}
    rc, out, err = sh("git init -q -b main . && git add -A && git commit -q -m c1 && git rev-parse HEAD", cwd=src, env=g)
    commit = out.strip().split("\n")[-1] if out.strip() else ""
    if rc != 0 or len(commit) != 40:
        raise RuntimeError("cannot create local git repository: %s %s" % (out, err))
    return src, commit


def make_project(proj, src, commit):
    shutil.rmtree(proj, ignore_errors=True); os.makedirs(proj + "/src")
    open(proj + "/Forc.toml", "w").write('[project]\nauthors = ["v"]\nentry = "main.sw"\nlicense = "Apache-2.0"\nname = "app"\nimplicit-std = false\n\n[dependencies]\nmylib = { git = "file://%s", rev = "%s" }\n' % (src, commit))
    open(proj + "/src/main.sw", "w").write("script;\nuse mylib::f;\nfn main() -> u64 { f() }\n")


def points(n):
    """fault point name -> number of completed steps of Model.fetch_steps"""
    p = {"start": 0, "create_dir": 1, "checkout": 2, "index": 2 + n, "remove": 3 + n, "rename": 4 + n, "done": 5 + n}
    for j in range(n + 1): p["file%d" % j] = 2 + j
    return p


def observe_tree(d, files_sorted):
    """-> tree code (0 absent / 1 + 2k + idx), ok(prefix & contents)"""
    if not os.path.isdir(d): return 0, True
    present = []
    for root, _, fs_ in os.walk(d):
        for f in fs_: present.append(os.path.relpath(os.path.join(root, f), d))
    idx = ".forc_index" in present
    fileset = sorted(x for x in present if x != ".forc_index")
    k = len(fileset)
    ok = fileset == files_sorted[:k]
    return 1 + 2 * k + (1 if idx else 0), ok


def run_case(binp, base, cid, repo, faults):
    """faults: list of (point or None, 'abort'|'error'|None). Returns dict with observations per build."""
    name, src, commit, files = repo
    files_sorted = sorted(files, key=lambda s: s.encode())
    home = os.path.join(base, "home_%s" % cid); shutil.rmtree(home, ignore_errors=True); os.makedirs(home)
    proj = os.path.join(base, "proj_%s" % cid); make_project(proj, src, commit)
    co = os.path.join(home, ".forc", "git", "checkouts")
    builds = []
    for pt, mode in faults:
        tr = os.path.join(home, "trace.txt")
        if os.path.exists(tr): os.remove(tr)
        env = {"HOME": home, "VERIF_GIT_TRACE": tr, "RUST_BACKTRACE": "0"}
        if pt: env["VERIF_GIT_FAULT"] = "%s:%s" % (pt, mode)
        before = set(os.listdir(os.path.join(co, "tmp"))) if os.path.isdir(os.path.join(co, "tmp")) else set()
        rc, out, err = sh("%s build %s mylib" % (binp, proj), env=env)
        trace = open(tr).read().split() if os.path.exists(tr) else []
        last = out.strip().split("\n")[-1] if out.strip() else ""
        finals = [os.path.join(co, d, commit) for d in (os.listdir(co) if os.path.isdir(co) else []) if d.startswith("mylib-")]
        final_dir = finals[0] if finals else os.path.join(co, "mylib-x", commit)
        fin, ok1 = observe_tree(final_dir, files_sorted)
        tmpd = os.path.join(co, "tmp")
        new = [d for d in (os.listdir(tmpd) if os.path.isdir(tmpd) else []) if d.endswith(".checkout") and d not in before]
        stg, ok2 = observe_tree(os.path.join(tmpd, new[0]), files_sorted) if new else (0, True)
        content_ok = True
        if last.startswith("ok "):
            d = last[3:].strip()
            for rel in files:
                try: content_ok &= open(os.path.join(d, rel)).read() == files[rel]
                except OSError: content_ok = False
        builds.append({"fault": "%s:%s" % (pt, mode) if pt else "none", "rc": rc, "result": last[:200], "trace": trace,
                       "decision": 0 if "start" in trace else 1, "final": fin, "staging": stg,
                       "shape_ok": ok1 and ok2 and len(new) <= 1, "content_ok": content_ok, "plan_ok": last.startswith("ok ")})
    shutil.rmtree(home, ignore_errors=True); shutil.rmtree(proj, ignore_errors=True)
    return {"repo": name, "n": len(files), "builds": builds}


def run(ctx):
    ctx.level = "proof"
    ok, out = coq.check_props(ctx, "C30", extra_targets=["C30/Judge.vo"])
    if not ok:
        ctx.log(out[-3000:])
        ctx.violation("proof", {"theorems": [o for o in ctx.obligations if not o[1]], "log": out[-2000:]},
                      "C30 proofs do not check", no_input=True)
    binp, bout = rust.build("c30")
    if binp is None:
        ctx.violation("harness-build", {"log": bout[-4000:]}, "harness c30 does not build against /repo", no_input=True)
        return
    base = os.path.join(ctx.work, "run"); shutil.rmtree(base, ignore_errors=True); os.makedirs(base)
    repos = []
    for name, files in REPOS.items():
        src, commit = make_repo(base, name, files)
        repos.append((name, src, commit, files))
    plans = []        # (repo, [faults])
    for repo in repos:
        n = len(repo[3]); P = points(n)
        singles = [(p, "abort") for p in P] + [(p, "error") for p in P if not p.startswith("file")]
        plans.append((repo, [(None, None), (None, None)]))
        for f in singles:
            plans.append((repo, [f, (None, None)]))
        pairs = [(a, b) for a in singles for b in singles]
        if ctx.quick:
            pairs = ctx.rng.sample(pairs, 12 if repo[0] != "two" else 30)
        for a, b in pairs:
            plans.append((repo, [a, b, (None, None)]))
        if not ctx.quick:
            for _ in range(40):
                plans.append((repo, [ctx.rng.choice(singles) for _ in range(ctx.rng.randint(3, 5))] + [(None, None)]))
    ctx.log("%d fault-injection cases (%d builds) on %d local repositories" % (len(plans), sum(len(p[1]) for p in plans), len(repos)))
    with cf.ThreadPoolExecutor(max_workers=NCPU) as ex:
        results = list(ex.map(lambda ip: run_case(binp, base, ip[0], ip[1][0], ip[1][1]), enumerate(plans)))

    items = []
    for (repo, faults), res in zip(plans, results):
        P = points(res["n"])
        bs = []
        for (pt, mode), b in zip(faults, res["builds"]):
            kind = 0 if pt is None else 1 if mode == "abort" else 2
            bs.append("(%d,%d,%d,%d,%d)" % (kind, P[pt] if pt else 0, b["decision"], b["final"], b["staging"]))
        items.append("(%d,[%s])" % (res["n"], ";".join(bs)))
    shard = "Open Scope N_scope.\nDefinition cs : list (N * list (N * N * N * N * N)) := [\n%s\n].\nEval vm_compute in (judge_all cs)." % ";\n".join(items)
    try:
        res = coq.run_cases(ctx, "c30", "From SwayV Require Import Base.Util C30.Model C30.Spec C30.Judge.", [shard])
    except RuntimeError as e:
        ctx.violation("model-eval", {"log": str(e)[-3000:]}, "C30 model/judge could not be evaluated (correspondence C30.corr not checked)", no_input=True)
        return
    verdicts = res[0][0]
    assert len(verdicts) == len(plans)
    hist = {"agree": 0, "differ": 0, "partial-checkout-used": 0}
    corr = []
    for (repo, faults), r, (diff, viol) in zip(plans, results, verdicts):
        fl = [("%s:%s" % f if f[0] else "none") for f in faults]
        rep = {"repo": repo[0], "files": sorted(repo[3]), "faults": fl, "builds": r["builds"],
               "replay_cmd": "HOME=<fresh dir> VERIF_GIT_FAULT=<fault> harness/target/debug/c30 build <project with mylib = { git = file://<repo>, rev = <commit> }> mylib  (once per fault, in order)"}
        key = "%s:%s" % (repo[0], ">".join(fl))
        last = r["builds"][-1]
        if viol:
            hist["partial-checkout-used"] += 1
            ctx.violation("partial-checkout-used:" + key[:80], rep,
                          "a build skipped fetching although the checkout at the final path was incomplete (faults %s on repo %s)" % (fl, repo[0]))
        elif not (last["plan_ok"] and last["content_ok"]) :
            hist["partial-checkout-used"] += 1
            ctx.violation("later-build-broken:" + key[:80], rep,
                          "the fault-free build after faults %s did not end with the complete checkout of the pinned commit: %s" % (fl, last["result"]))
        elif diff != 0 or not all(b["shape_ok"] for b in r["builds"]):
            hist["differ"] += 1
            corr.append((key, dict(rep, first_differing_build=diff, correspondence="C30.corr (Judge.judge)")))
        else:
            hist["agree"] += 1
    for key, rep in corr[:5]:
        ctx.violation("corr:" + key[:80], rep,
                      "model and implementation differ at build %d of case %s while no incomplete checkout was used: theorem C30_fetch_crash_safe is no longer tied to the code" % (rep["first_differing_build"], key),
                      no_input=True)
    pts = sorted({f for _, fs in plans for f in fs if f[0]})
    ctx.coverage.update({
        "checker_cmd": "make -C coq C30/Props.vo (coqc 8.16.1) + coqc vm_compute C30/Judge.judge_all over harness output",
        "trusted_base": ["Coq 8.16.1 kernel + vm_compute", "harness/src/bin/c30.rs", "props/c30.py (directory observation, encoding)",
                         "hook forc-pkg/src/source/git/mod.rs (cfg fuellabs_sway_verif): fault/trace points of git::fetch",
                         "POSIX rename/mkdir/unlink semantics and libgit2 checkout order are modelled (C30/Model.v), tied by comparison of the observed trees"],
        "evaluations": len(plans), "distinct_nontrivial": len({(p[0][0], tuple(p[1])) for p in plans if any(f[0] for f in p[1])}),
        "rule": "fault_enumeration: every injection point of git::fetch (start, create_dir, checkout, after each of the n files, index, remove, rename, done) x {abort = process killed, error = step fails; error not injectable between files} on %d local repositories (n = 5, 2, 11 files), each followed by a fault-free build; pairs of faults then a fault-free build (quick: sample, thorough: all pairs + random sequences of 3-5 faults); distinct by (repository, fault sequence), non-trivial = at least one fault" % len(repos),
        "samples": [{"repo": p[0][0], "faults": [("%s:%s" % f if f[0] else "none") for f in p[1]],
                     "builds": [(b["decision"], b["final"], b["staging"], b["result"][:40]) for b in r["builds"]]} for p, r in list(zip(plans, results))[3:7]],
        "injection_points": ["%s:%s" % f for f in pts], "builds_run": sum(len(p[1]) for p in plans),
        "judgements": hist,
        "explanation": "Level: proof of the step model (all commit sizes, all fault sequences); the validation is an exhaustive fault enumeration over the hook's injection points, each build being the real BuildPlan::from_pkg_opts in its own process against a local git repository (file:// URL).",
    })
    ctx.assumptions += ["model = code is established by comparing decisions and directory trees on the enumerated fault sequences only",
                        "crash = process death; power loss / non-atomic rename, a partially written file, non-atomic remove_dir_all are not modelled",
                        "an I/O failure in the middle of checkout_head cannot be injected (only a crash there); the model covers it"]
